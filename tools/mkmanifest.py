#!/usr/bin/env python3
"""Regenerates /verif/MANIFEST.json from tools/manifest_src.py (single source for claimed checks / not-applicable list)."""
import json, os, sys
here = os.path.dirname(os.path.abspath(__file__))
sys.path.insert(0, here)
import manifest_src as M
props = [json.loads(l)['id'] for l in open(os.path.join(here, '..', 'properties.jsonl'))]
checks = []
na = []
for pid in props:
    if pid in M.CLAIMED:
        c = M.CLAIMED[pid]
        checks.append({
            'property_id': pid,
            'quick_cmd': './check %s quick' % pid,
            'thorough_cmd': './check %s thorough' % pid,
            'evidence_file': 'evidence/%s.json' % pid,
            'replay_cmd_template': './check %s --replay {path}' % pid,
            'engine': c.get('engine', 'crosshair-z3'),
            'level_claimed': {'category': 'model_checking', 'text': c['text'], 'design_ref': c['design_ref']},
            'level_note': c['note'],
            'technique': c['technique'],
        })
    else:
        na.append({'property_id': pid, 'reason': M.NOT_APPLICABLE.get(pid, M.NOT_YET)})
man = {
    'version': 1,
    'setup_cmd': './setup.sh',
    'hooks': M.HOOKS,
    'engines': M.ENGINES,
    'checks': checks,
    'not_applicable': na,
    'notes': M.NOTES,
}
json.dump(man, open(os.path.join(here, '..', 'MANIFEST.json'), 'w'), indent=1)
print('claimed', [c['property_id'] for c in checks]); print('not applicable', [x['property_id'] for x in na])
