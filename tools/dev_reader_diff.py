"""Development aid (not a check): concrete differential of the reference reader against the real reader, to debug the ORACLE."""
import itertools, sys
sys.path.insert(0, '/verif')
from vf import csvh
from vf.refmodel import csvref
bad = 0; n = 0
alpha = ['a', '"', ',', '\n', '\r', '#', ' ', '﻿']
for L in range(0, 6):
    for t in itertools.product(alpha, repeat=L):
        s = ''.join(t)
        for (dlm, policy) in ((',', 'quoted'), (',', 'quoted_rfc'), (',', 'simple'), (' ', 'whitespace'), ('', 'monocolumn')):
            for hh in (False, True):
                for cp in (None, '#'):
                    for enc in (None, 'utf-8'):
                        if L == 5 and (hh or enc is None):
                            continue
                        n += 1
                        g = csvh.read_all([s], enc, dlm, policy, hh, cp)
                        e = csvref.expected_read(s, dlm, policy, hh, cp, enc)
                        if g != e:
                            bad += 1
                            if bad < 12:
                                print(repr(s), dlm, policy, hh, cp, enc, '\n  got', g, '\n  exp', e)
print('cases', n, 'bad', bad)
