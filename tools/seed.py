#!/usr/bin/env python3
"""Confirm a seeded change and measure which checks catch it.

usage: tools/seed.py <seed-id> <property> <diff> <demo.py> <note.txt> [--checks C01,C06] [--tier quick]

1. scratch worktree of /repo under /tmp: demo passes clean, fails with the diff, pinned test suite still at baseline (45 pass);
2. applies the diff to /repo, runs the listed checks (default: the property's own), reverts /repo straight afterwards;
3. stores seeded/<seed-id>/{patch.diff, demo.py, meta.json}.
"""
import json
import os
import re
import shutil
import subprocess
import sys
import time

VERIF = os.path.dirname(os.path.dirname(os.path.abspath(__file__)))


def sh(cmd, cwd=None, timeout=3600, env=None):
    p = subprocess.run(cmd, shell=True, cwd=cwd, capture_output=True, text=True, timeout=timeout, env=env)
    return p.returncode, p.stdout + p.stderr


def main():
    a = sys.argv[1:]
    sid, prop, diff, demo, note = a[:5]
    checks = [prop]
    tier = 'quick'
    if '--checks' in a:
        checks = a[a.index('--checks') + 1].split(',')
    if '--tier' in a:
        tier = a[a.index('--tier') + 1]
    scratch = '/tmp/seedcheck_%s' % sid
    sh('git -C /repo worktree remove --force %s' % scratch)
    rc, out = sh('git -C /repo worktree add -q %s HEAD' % scratch)
    assert rc == 0, out
    meta = {'seed': sid, 'breaks_property': prop, 'ran': []}
    try:
        src = open(demo).read()
        src = re.sub(r'/tmp/wt_[A-Za-z0-9_]+', scratch, src)
        dpath = os.path.join(scratch, '_demo.py')
        open(dpath, 'w').write(src)
        # helper files the demo may use (e.g. a node script next to it): same relative place (_out/) in the scratch worktree
        extra = [f for f in os.listdir(os.path.dirname(os.path.abspath(demo))) if f.endswith('.js')]
        os.makedirs(os.path.join(scratch, '_out'), exist_ok=True)
        for f in extra:
            txt = open(os.path.join(os.path.dirname(os.path.abspath(demo)), f)).read()
            open(os.path.join(scratch, '_out', f), 'w').write(re.sub(r'/tmp/wt_[A-Za-z0-9_]+', scratch, txt))
            open(os.path.join(scratch, f), 'w').write(re.sub(r'/tmp/wt_[A-Za-z0-9_]+', scratch, txt))
        rc_clean, out_clean = sh('/venv/bin/python _demo.py', cwd=scratch, timeout=600)
        rc, out = sh('git apply %s' % os.path.abspath(diff), cwd=scratch)
        assert rc == 0, 'diff does not apply: ' + out
        rc_mut, out_mut = sh('/venv/bin/python _demo.py', cwd=scratch, timeout=600)
        rc_t, out_t = sh('/venv/bin/python -m pytest -q -p no:cacheprovider --timeout=900 --continue-on-collection-errors 2>&1 | tail -1', cwd=scratch)
        env = dict(os.environ, PYTHONPATH=scratch + '/rbql-py')
        rc_t2, out_t2 = sh('/venv/bin/python -m pytest -q -p no:cacheprovider --timeout=900 --continue-on-collection-errors 2>&1 | tail -1', cwd=scratch, env=env)
        meta['demo_clean_exit'] = rc_clean
        meta['demo_with_change_exit'] = rc_mut
        meta['demo_with_change_output'] = out_mut[-300:]
        meta['pinned_tests_with_change'] = out_t.strip()
        meta['tree_tests_with_change'] = out_t2.strip()
        meta['ran'].append('demo in scratch worktree %s (clean: exit %d; with change: exit %d); pinned pytest command with the change; same with PYTHONPATH=<tree>/rbql-py' % (scratch, rc_clean, rc_mut))
        confirmed = rc_clean == 0 and rc_mut != 0 and '45 passed' in out_t
        meta['confirmed'] = confirmed
    finally:
        sh('git -C /repo worktree remove --force %s' % scratch)
        shutil.rmtree(scratch, ignore_errors=True)
    if not meta.get('confirmed'):
        print('NOT CONFIRMED', json.dumps(meta, indent=1))
        return 1
    # run our checks against it: in a scratch worktree through VF_REPO, so that /repo itself stays untouched (long background runs use it)
    evaldir = '/tmp/seedeval_%s' % sid
    sh('git -C /repo worktree remove --force %s' % evaldir)
    rc, out = sh('git -C /repo worktree add -q %s HEAD' % evaldir)
    assert rc == 0, out
    rc, out = sh('git apply %s' % os.path.abspath(diff), cwd=evaldir)
    assert rc == 0, out
    results = {}
    try:
        env = dict(os.environ, VF_REPO=evaldir)
        for c in checks:
            t0 = time.time()
            rc, out = sh('./check %s %s' % (c, tier), cwd=VERIF, timeout=7200, env=env)
            viol = [l for l in out.splitlines() if l.startswith('VIOLATION')]
            results[c] = {'exit': rc, 'violations': len(viol), 'first': (viol[0] if viol else None), 'summary': out.strip().splitlines()[-1][:200], 'wall_s': round(time.time() - t0)}
            meta['ran'].append('./check %s %s against a scratch worktree with the change applied (VF_REPO) -> exit %d, %d VIOLATION lines' % (c, tier, rc, len(viol)))
        if not any(r['exit'] == 1 for r in results.values()) and '--no-thorough' not in a:
            # missed by the quick tier: does the thorough tier of the property's own check catch it (wall budget 15 min)?
            t0 = time.time()
            env2 = dict(env, VERIF_BUDGET='900')
            rc, out = sh('./check %s thorough' % prop, cwd=VERIF, timeout=7200, env=env2)
            viol = [l for l in out.splitlines() if l.startswith('VIOLATION')]
            meta['thorough_on_miss'] = {'exit': rc, 'violations': len(viol), 'first': (viol[0] if viol else None), 'summary': out.strip().splitlines()[-1][:200], 'wall_s': round(time.time() - t0)}
            meta['ran'].append('./check %s thorough (VERIF_BUDGET=900) after the quick miss -> exit %d, %d VIOLATION lines' % (prop, rc, len(viol)))
    finally:
        sh('git -C /repo worktree remove --force %s' % evaldir)
        shutil.rmtree(evaldir, ignore_errors=True)
    meta['checks'] = results
    meta['caught_by'] = [c for c, r in results.items() if r['exit'] == 1]
    meta['needs'] = open(note).read().strip()
    d = os.path.join(VERIF, 'seeded', sid)
    os.makedirs(d, exist_ok=True)
    shutil.copy(diff, os.path.join(d, 'patch.diff'))
    demo_src = re.sub(r"'/tmp/wt_[A-Za-z0-9_]+/rbql-py'", "os.environ.get('RBQL_TREE', '/repo') + '/rbql-py'", open(demo).read())
    if 'import os' not in demo_src:
        lines = demo_src.split('\n')
        fut = [i for i, l in enumerate(lines) if l.startswith('from __future__')]
        lines.insert((max(fut) + 1) if fut else 0, 'import os')     # `from __future__` must stay the first statement
        demo_src = '\n'.join(lines)
    open(os.path.join(d, 'demo.py'), 'w').write(demo_src)
    for f in os.listdir(os.path.dirname(os.path.abspath(demo))):
        if f.endswith('.js'):
            shutil.copy(os.path.join(os.path.dirname(os.path.abspath(demo)), f), os.path.join(d, f))
    json.dump(meta, open(os.path.join(d, 'meta.json'), 'w'), indent=1)
    print(sid, 'caught by', meta['caught_by'], {c: (r['exit'], r['violations']) for c, r in results.items()}, ('thorough: exit %d' % meta['thorough_on_miss']['exit']) if 'thorough_on_miss' in meta else '')
    return 0


if __name__ == '__main__':
    sys.exit(main())
