HOOKS = {
    'guard': 'RBQL_VERIF',
    'enable': 'none needed: harnesses rebind module-level names of the modules under test from outside (vf/stubs.py); /repo sources run unmodified',
    'baseline_off_cmd': 'cd /repo && /venv/bin/python -m pytest -ra -q -p no:cacheprovider --timeout=900 --continue-on-collection-errors',
    'source_commits': [],
    'add_only': True,
}
ENGINES = [
    {'name': 'crosshair-z3', 'path': 'vf/engine.py', 'serves_properties': [],
     'kind_free_text': 'CrossHair 0.0.110 symbolic execution (z3) of the real Python modules imported from /repo/rbql-py on every run; one worker process per obligation shard; counterexamples replayed in a plain interpreter'},
]
NOTES = ('Exit codes: 0 held within bounds (inconclusive obligations are listed in evidence, never counted as success of that obligation), '
         '1 violation (replayed against the real code), 2 harness error (never a VIOLATION line). Known findings: known_findings.json.')
NOT_YET = 'check not built yet in this round (see DESIGN.md section 10, build order); no claim is made'
NOT_APPLICABLE = {
    'C19': 'no JavaScript symbolic executor is available offline and rbql.js is an async eval-based engine that a kernel translator cannot lower (DESIGN.md C19)',
}
TB = 'Trusted: CrossHair 0.0.110 models of str/list/dict/re, z3, CPython 3.12.1; reference oracles in vf/refmodel (self-validated on the repository\'s expected test vectors each run). '
CLAIMED = {
    'C11': {
        'text': 'Bounded model checking: for every Unicode line up to the stated length the real splitters (and the reader on a one-line stream) equal an independent dialect scanner, decided by z3 over all paths of the real code (CrossHair "Confirmed over all paths" per shard).',
        'design_ref': 'DESIGN.md section 6, C11',
        'note': TB + 'Bounds: line length <= 5 (quick) / <= 7 (thorough), single-character delimiters , ; TAB | SPACE. Outside: longer lines, multi-character delimiters, JS twin.',
        'technique': 'symbolic execution of csv_utils/rbql_csv with z3 (CrossHair), differential against reference dialect scanner',
    },
}
for k in CLAIMED:
    ENGINES[0]['serves_properties'].append(k)
