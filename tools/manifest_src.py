HOOKS = {
    'guard': 'RBQL_VERIF',
    'enable': 'none needed: harnesses rebind module-level names of the modules under test from outside (vf/stubs.py); /repo sources run unmodified',
    'baseline_off_cmd': 'cd /repo && /venv/bin/python -m pytest -ra -q -p no:cacheprovider --timeout=900 --continue-on-collection-errors',
    'source_commits': [],
    'add_only': True,
}
ENGINES = [
    {'name': 'crosshair-z3', 'path': 'vf/engine.py', 'serves_properties': [],
     'kind_free_text': 'CrossHair 0.0.110 symbolic execution (z3) of the real Python modules imported from /repo/rbql-py on every run; one worker process per obligation shard; counterexamples replayed in a plain interpreter'},
]
NOTES = ('Exit codes: 0 held within bounds (inconclusive obligations are listed in evidence, never counted as success of that obligation), '
         '1 violation (replayed against the real code), 2 harness error (never a VIOLATION line). Known findings: known_findings.json.')
NOT_YET = 'check not built yet in this round (see DESIGN.md section 10, build order); no claim is made'
NOT_APPLICABLE = {
    'C19': 'no JavaScript symbolic executor is available offline and rbql.js is an async eval-based engine that a kernel translator cannot lower (DESIGN.md C19)',
}
TB = 'Trusted: CrossHair 0.0.110 models of str/list/dict/re, z3, CPython 3.12.1; reference oracles in vf/refmodel (self-validated on the repository\'s expected test vectors each run). '
def _c(text, ref, note, technique='CrossHair symbolic execution of the real rbql_engine.query_table (z3), differential against a relational reference interpreter'):
    return {'text': text, 'design_ref': 'DESIGN.md section 6, ' + ref, 'note': TB + note, 'technique': technique}


BMC = 'Bounded model checking: concrete query family x symbolic data; every obligation is CrossHair/z3 "confirmed over all paths" of the real code for all tables of the stated shape, or a replayed counterexample. '
CLAIMED = {
    'C01': _c(BMC + 'SELECT/WHERE/star/EXCEPT/UNNEST results equal the reference for every table within bounds.', 'C01',
              'Bounds: <=3 rows x <=3 fields, cells str len<=2 or None, join table <=2 rows (quick: 2-3 rows). Outside: symbolic query text, larger tables, JS twin.'),
    'C02': _c(BMC + 'sort (stable, DESC = reverse), dedup, multiplicity, truncation and input-consumption counts equal the reference.', 'C02',
              'Bounds: <=4 int rows (quick 3), n in 0..rows+1, one str shard, unbounded cyclic iterator for the termination clause. Outside: float keys, more rows, JS twin.'),
    'C03': _c(BMC + 'one exact row per group in key order for COUNT/MIN/MAX/SUM/ARRAY_AGG/ANY_VALUE/odd MEDIAN; AVG/VARIANCE by exact accumulator lemmas + finaliser formula lowered from the source AST to z3/cvc5 (reals).', 'C03',
              'Bounds: <=4 rows, int or 1-2 digit string cells, 1-2 keys. Outside: float cells, IEEE rounding of AVG/VARIANCE/even MEDIAN (end-to-end float equality is bug-hunting only).',
              'CrossHair symbolic execution (z3) + direct AST->SMT encoding of get_final (z3 and cvc5)'),
    'C04': _c(BMC + 'every join kind x key spelling x downstream shape equals the nested-loop expansion reference.', 'C04',
              'Bounds: |A|,|B| <= 3 (quick 2x2), int keys (0..1 where the key is embedded in a message), one str-key shard. HashJoinMap defaultdict replaced by an equality map under symbolic execution. Outside: bigger tables, JS twin.'),
    'C05': _c(BMC + 'UPDATE emits each record once with only assigned fields changed, RHS on original values, NU, missing-field error.', 'C05',
              'Bounds: <=3 rows x 1..3 fields ragged, cells str len<=2/None, 1-3 assignments, INNER/LEFT JOIN 2x2. Outside: JS twin (known to alias rows).'),
    'C06': _c(BMC + 'list sources deep-equal their snapshots after the query and after in-place mutation of every output record; only [A-Za-z0-9_]* identifiers reach the (fake) sqlite connection for every Unicode name within bounds.', 'C06',
              'Claimed clauses: Python lists, sqlite identifier. NOT claimed (C extensions/OS): pandas dataframes, sqlite file, CSV files on disk, rbql-js arrays. Names without LF, len<=4 (quick)/5.'),
    'C07': _c(BMC + 'output header width and names follow the documented rule for symbolic distinct header names.', 'C07',
              'Bounds: 2-3 column headers, symbolic names len<=2 (concrete hostile names for a[...] queries: names are embedded in generated code), 2 rows. Outside: pandas writer, JS twin.'),
    'C11': {
        'text': 'Bounded model checking: for every Unicode line up to the stated length the real splitters (and the reader on a one-line stream) equal an independent dialect scanner, decided by z3 over all paths of the real code (CrossHair "Confirmed over all paths" per shard).',
        'design_ref': 'DESIGN.md section 6, C11',
        'note': TB + 'Bounds: line length <= 5 (quick) / <= 7 (thorough), single-character delimiters , ; TAB | SPACE. Outside: longer lines, multi-character delimiters, JS twin.',
        'technique': 'symbolic execution of csv_utils/rbql_csv with z3 (CrossHair), differential against reference dialect scanner',
    },
    'C17': _c(BMC + 'like_to_regex structure for every pattern <=5 chars (symbolic) and LIKE == textbook matcher for every single-line text <=5 chars on all wildcard/literal shapes <=4.', 'C17',
              'Bounds as stated; re.escape stubbed by a homomorphic marker in the structure lemma only. Outside: multi-line texts, JS twin.',
              'CrossHair symbolic execution of like_to_regex / LIKE via query_table (z3), differential against dynamic-programming matcher'),
}
for k in CLAIMED:
    ENGINES[0]['serves_properties'].append(k)
