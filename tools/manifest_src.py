HOOKS = {
    'guard': 'RBQL_VERIF',
    'enable': 'none needed: harnesses rebind module-level names of the modules under test from outside (vf/stubs.py); /repo sources run unmodified',
    'baseline_off_cmd': 'cd /repo && /venv/bin/python -m pytest -ra -q -p no:cacheprovider --timeout=900 --continue-on-collection-errors',
    'source_commits': [],
    'add_only': True,
}
ENGINES = [
    {'name': 'crosshair-z3', 'path': 'vf/engine.py', 'serves_properties': [],
     'kind_free_text': 'CrossHair 0.0.110 symbolic execution (z3) of the real Python modules imported from /repo/rbql-py on every run; one worker process per obligation shard; counterexamples replayed in a plain interpreter'},
]
NOTES = ('Exit codes: 0 held within bounds (inconclusive obligations are listed in evidence, never counted as success of that obligation), '
         '1 violation (replayed against the real code), 2 harness error (never a VIOLATION line). Known findings: known_findings.json.')
NOT_YET = 'E2 (JavaScript kernels lowered to Python) not built yet; no claim is made until the lowering validates (DESIGN.md 1.2, fallback: not applicable)'
NOT_APPLICABLE = {
    'C19': 'no JavaScript symbolic executor is available offline and rbql.js is an async eval-based engine that a kernel translator cannot lower (DESIGN.md C19)',
}
TB = 'Trusted: CrossHair 0.0.110 models of str/list/dict/re, z3, CPython 3.12.1; reference oracles in vf/refmodel (self-validated on the repository\'s expected test vectors each run). '
def _c(text, ref, note, technique='CrossHair symbolic execution of the real rbql_engine.query_table (z3), differential against a relational reference interpreter'):
    return {'text': text, 'design_ref': 'DESIGN.md section 6, ' + ref, 'note': TB + note, 'technique': technique}


BMC = 'Bounded model checking: concrete query family x symbolic data; every obligation is CrossHair/z3 "confirmed over all paths" of the real code for all tables of the stated shape, or a replayed counterexample. '
CLAIMED = {
    'C01': _c(BMC + 'SELECT/WHERE/star/EXCEPT/UNNEST results equal the reference for every table within bounds.', 'C01',
              'Bounds: <=3 rows x <=3 fields, cells str len<=2 or None, join table <=2 rows (quick: 2-3 rows). Outside: symbolic query text, larger tables, JS twin.'),
    'C02': _c(BMC + 'sort (stable, DESC = reverse), dedup, multiplicity, truncation and input-consumption counts equal the reference.', 'C02',
              'Bounds: <=4 int rows (quick 3), n in 0..rows+1, one str shard, unbounded cyclic iterator for the termination clause. Outside: float keys, more rows, JS twin.'),
    'C03': _c(BMC + 'one exact row per group in key order for COUNT/MIN/MAX/SUM/ARRAY_AGG/ANY_VALUE/odd MEDIAN; AVG/VARIANCE by exact accumulator lemmas + finaliser formula lowered from the source AST to z3/cvc5 (reals).', 'C03',
              'Bounds: <=4 rows, int or 1-2 digit string cells, 1-2 keys. Outside: float cells, IEEE rounding of AVG/VARIANCE/even MEDIAN (end-to-end float equality is bug-hunting only).',
              'CrossHair symbolic execution (z3) + direct AST->SMT encoding of get_final (z3 and cvc5)'),
    'C04': _c(BMC + 'every join kind x key spelling x downstream shape equals the nested-loop expansion reference.', 'C04',
              'Bounds: |A|,|B| <= 3 (quick 2x2), int keys (0..1 where the key is embedded in a message), one str-key shard. HashJoinMap defaultdict replaced by an equality map under symbolic execution. Outside: bigger tables, JS twin.'),
    'C05': _c(BMC + 'UPDATE emits each record once with only assigned fields changed, RHS on original values, NU, missing-field error.', 'C05',
              'Bounds: <=3 rows x 1..3 fields ragged, cells str len<=2/None, 1-3 assignments, INNER/LEFT JOIN 2x2. Outside: JS twin (known to alias rows).'),
    'C06': _c(BMC + 'list sources deep-equal their snapshots after the query and after in-place mutation of every output record; only [A-Za-z0-9_]* identifiers reach the (fake) sqlite connection for every Unicode name within bounds.', 'C06',
              'Claimed clauses: Python lists, sqlite identifier. NOT claimed (C extensions/OS): pandas dataframes, sqlite file, CSV files on disk, rbql-js arrays. Names without LF, len<=4 (quick)/5. Also sources whose rows are tuples or hold list-valued cells (row identity, types and deep values compared).'),
    'C07': _c(BMC + 'output header width and names follow the documented rule for symbolic distinct header names.', 'C07',
              'Bounds: 2-3 column headers (plus bare identifiers that only start like aN/bN: direct column names, user-init variables), symbolic names len<=2 (concrete hostile names for a[...] queries: names are embedded in generated code), 2 rows. Outside: pandas writer, JS twin.'),
    'C11': {
        'text': 'Bounded model checking: for every Unicode line up to the stated length the real splitters (and the reader on a one-line stream) equal an independent dialect scanner, decided by z3 over all paths of the real code (CrossHair "Confirmed over all paths" per shard).',
        'design_ref': 'DESIGN.md section 6, C11',
        'note': TB + 'Bounds: line length <= 5 (quick) / <= 7 (thorough), single-character delimiters , ; TAB | SPACE plus the multi-character delimiters "::", ", " and " | " (length <= 4 quick / <= 6 thorough; class-alphabet lines {quote, delimiter chars, blank, LF, CR, a} solver-enumerated to length 4 / 5). Outside: longer lines, other multi-character delimiters, JS twin.',
        'technique': 'symbolic execution of csv_utils/rbql_csv with z3 (CrossHair), differential against reference dialect scanner',
    },
    'C17': _c(BMC + 'like_to_regex structure for every pattern <=5 chars (symbolic) and LIKE == textbook matcher for every single-line text <=5 chars on all wildcard/literal shapes <=4.', 'C17',
              'Bounds as stated; re.escape stubbed by a homomorphic marker in the structure lemma only. Plus solver-enumerated texts over 9 normalisation- / case-folding-sensitive code points (C functions the engine cannot model run on concrete values per path). Outside: multi-line texts, JS twin.',
              'CrossHair symbolic execution of like_to_regex / LIKE via query_table (z3), differential against dynamic-programming matcher'),
}

CLAIMED.update({
    'C08': _c(BMC + 'every generated respelling (composition of the property\'s spelling transformations) equals the reference semantics of its base query on a symbolic table; the real literal scanner/combiner is opaque for every symbolic literal content.', 'C08',
              'Bounds: 15 base queries x 6 (quick) / 24 (thorough) random compositions seeded by VERIF_SEED; literal content len<=3/4 (scanner back-reference expanded mechanically, validated per run); 28 hostile literals end to end; literal pairs with 1-4 trailing backslashes; literal content over a solver-enumerated 20-member class of blank / line-boundary characters end to end. Outside: symbolic query text as a whole, JS twin.',
              'CrossHair symbolic execution of query_table on respelled texts + of separate_string_literals with a mechanically lowered regex (z3)'),
    'C09': _c(BMC + 'named column references denote the column at that header position (symbolic neighbours / hostile concrete names), escape and index-map lemmas over symbolic names, and header-line / WITH-modifier handling over symbolic CSV text.', 'C09',
              'Bounds: 3-name headers, symbolic names len<=2/3, 16 hostile names, CSV texts 2-3 lines x <=2 chars, caller flag x 5 modifiers, input and join table. Outside: pandas/sqlite header sources.',
              'CrossHair symbolic execution of query_table / rbql_engine.query over CSVRecordIterator on stub streams (z3)'),
    'C10': _c(BMC + 'quote->split kernel lemma and real CSVWriter->CSVRecordIterator round trip for every representable table within bounds; lossy-output warnings iff; multi-character delimiters under the quoted policies (a defect found by this check, since fixed in /repo) included.', 'C10',
              'Bounds: kernel <=5 chars in 1-3 fields; pipeline <=2x2 tables with <=3 (quick)/4 chars; delimiters , ; TAB | SPACE :: and non-ASCII; LF/CRLF/CR. Text level only: utf-8/latin-1 codec layers (io.TextIOWrapper) trusted/outside.',
              'CrossHair symbolic execution of csv_utils and rbql_csv writer->reader pipeline on stub streams (z3)'),
    'C12': _c(BMC + 'for every text and every partition into reads (symbolic pieces) and chunk size the real reader returns what the reference reader derives from the concatenation.', 'C12',
              'Bounds: total length <=3 (quick)/<=5, 1-3 pieces, chunk sizes 1,2,3,1024, 11 reader configurations. Byte level: concrete multi-byte samples through the real encode_input_stream/io.TextIOWrapper with SYMBOLIC cut positions (every partition into <=3 raw reads); symbolic byte content stays outside (C object).',
              'CrossHair symbolic execution of rbql_csv.CSVRecordIterator over a piece-delivering stub stream (z3), differential against reference reader'),
    'C13': _c(BMC + 'query_table == query()+Table adapters == user-written iterator/writer/registry == CSV adapters on symbolic string tables; CLI contract of rbql_main.main() for every outcome of a nondeterministic query_csv stub.', 'C13',
              'Claimed: list/query()/CSV adapters and the CLI contract in process. Also the list front-ends in sequence over the same table objects, and stdin->stdout/file BYTES through the real encode_*_stream layers (cells solver-enumerated from a small pool). NOT claimed: real subprocess, files on disk, pandas, sqlite (OS / C boundaries).',
              'CrossHair symbolic execution of the adapters and of rbql_main.main with a nondeterministic stub engine (z3)'),
    'C14': _c(BMC + 'poisoned-record family for every evaluating clause (error class, first offending record number/field, rows already written), static-mistake family (error class, nothing written), warning iff-conditions for ragged tables and CSV adapters.', 'C14',
              'Bounds: <=3 int rows, all ragged shapes <=3x2, CSV texts 2 lines <=3 chars. Message contents beyond the documented prefix are not asserted.'),
    'C15': _c(BMC + 'symbolic fault index: broken pipe at any write (returns, prefix, no further writes/pulls), undecodable input at any read (IO-handling error only), all opened files closed on every path of query_csv over an in-memory file table, user-writer protocol for any refusal index.', 'C15',
              'Bounds: tables <=2 (quick)/3 rows, CSV texts 2 lines x <=2 chars, k/m any non-negative int. Outside: real UTF-8 decoder byte positions, real pipes/fds.',
              'CrossHair symbolic execution with fault-injecting stub streams whose fault position is a symbolic integer (z3)'),
    'C16': _c(BMC + 'probe result unchanged after every history of <=3 scenario queries (symbolic selectors); nested-execution schedules (query B runs to completion inside any step k of A, depth <=3) leave both results equal to their solo reference.', 'C16',
              'Claimed: histories + nested schedules. NOT claimed: preemptive thread interleavings (not expressible in CrossHair).',
              'CrossHair symbolic execution with symbolic history selectors / step indices (z3)'),
})

CLAIMED.update({
    'C18': dict(_c('Bounded model checking of the lowered code: the synchronous string kernels of rbql-js (csv_utils.js, record assembly of rbql_csv.js) are lowered from ESTree to Python on every run, validated against real node, and executed symbolically next to the Python kernels: same fields / warning / quoted text / records / warnings / IO error for every BMP line or file text within bounds; cross-language quote->split round trips.', 'C18',
                   'Bounds: lines <=4 (quick)/<=6 chars, file texts <=3/5 chars, delimiters , ; TAB SPACE | :: :=), all policies. Trusted: the ESTree->Python translator and JS runtime shim (vf/jslower), validated per run on ~8000 concrete calls + 400 reader cases against real node; counterexamples replayed in real node. Header clause: lowered adhoc_parse_select_expression_to_column_infos + select_output_header vs the Python ast path on 33 common-syntax select lists x symbolic header names; open known finding F9 (JS falls back to colK for parenthesised / blank-padded column references). Outside: async plumbing, astral characters, file/CLI level.',
                   'JS kernels lowered (acorn ESTree -> Python) + CrossHair symbolic execution (z3), differential JS vs Python'), engine='js-lowering+crosshair'),
    'C20': dict(_c('Bounded model checking of the lowered code: real rbql-js reader methods (process_data_stream_chunk/_end, process_line, record aggregation, get_warnings) driven chunk by chunk on symbolic BYTES (per shard a UTF-8 structure pattern; every chunk boundary incl. inside CRLF and inside multi-byte characters) equal the lowered bulk path; every counterexample replayed in real node over a stream.Readable.', 'C20',
                   'Bounds: <=4 (quick)/<=6 bytes, <=3 chunks, utf-8 and binary, quoted/quoted_rfc/simple, comment prefix on/off. Buffer/TextDecoder are pure-Python stubs from the WHATWG contract, validated per run against real node. Outside: 64 KiB default chunking, back-pressure, promise queue.',
                   'JS reader lowered (acorn ESTree -> Python) + CrossHair symbolic execution over symbolic bytes (z3), stream vs bulk'), engine='js-lowering+crosshair'),
})
ENGINES.append({'name': 'js-lowering+crosshair', 'path': 'vf/jslower', 'serves_properties': ['C18', 'C20'],
                'kind_free_text': 'ESTree (acorn bundled with node 20) -> Python source translator + JS runtime shim, regenerated from /repo/rbql-js on every run, validated against real node; lowered code executed symbolically by CrossHair/z3; counterexamples replayed in real node'})
for k in CLAIMED:
    if k not in ('C18', 'C20'):
        ENGINES[0]['serves_properties'].append(k)
