#!/bin/bash
# Runs every claimed check of one tier in sequence and prints one summary line each (development convenience).
cd "$(dirname "$0")/.."
tier=${1:-quick}
for p in $(python3 -c "import json; print(' '.join(c['property_id'] for c in json.load(open('MANIFEST.json'))['checks']))"); do
  s=$(date +%s); out=$(./check $p $tier 2>&1); rc=$?; e=$(date +%s)
  echo "$p exit=$rc $((e-s))s $(echo "$out" | tail -1 | cut -c1-160)"
  echo "$out" | grep -E "^(VIOLATION|HARNESS-ERROR|KNOWN-FINDING)" | head -5 | cut -c1-200
done
