#!/bin/sh
# Development aid: every property module must be able to generate both tiers (unique obligation names) without touching the solver.
cd "$(dirname "$0")/.." || exit 2
for c in c01 c02 c03 c04 c05 c06 c07 c08 c09 c10 c11 c12 c13 c14 c15 c16 c17 c18 c20; do
  PYTHONPATH=/repo/rbql-py:/verif .venv/bin/python -W ignore -c "
from vf.props import $c as m
for t in ('quick', 'thorough'):
    o = m.obligations(t, 0); n = [x.name for x in o]
    assert len(n) == len(set(n)), ('duplicate names', t)
    print('$c', t, len(o))" || exit 2
done
