#!/bin/bash
# Builds /verif/.venv: a venv of the repository's own interpreter (/venv/bin/python, 3.12) that sees
# /venv's site-packages through a .pth and has crosshair-tool + z3-solver from the offline wheelhouse.
set -e
cd "$(dirname "$0")"
V=.venv
if [ -x $V/bin/python ] && $V/bin/python -c 'import crosshair, z3' 2>/dev/null; then
  echo "setup: $V present"; exit 0
fi
rm -rf $V
/venv/bin/python -m venv $V
SP=$($V/bin/python -c 'import site; print(site.getsitepackages()[0])')
echo "import site; site.addsitedir('/venv/lib/python3.12/site-packages')" > $SP/zz_venv_overlay.pth
PIP_NO_INDEX=1 $V/bin/python -m pip install -q --no-index --find-links /opt/veriftools/wheels crosshair-tool z3-solver
$V/bin/python -c 'import crosshair, z3; print("setup: crosshair ok, z3", z3.get_version_string())'
