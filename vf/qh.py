"""Query harness runtime + generator: runs the real engine and the relational reference on one symbolic table."""
from rbql import rbql_engine

from vf.engine import Obl
from vf.gen import harness, indent
from vf.refmodel import rel


def copy_table(T):
    return [list(r) for r in T] if T is not None else None


def run_rbql(text, T, B=None, ha=None, hb=None, normalize=True):
    """The real engine through its public list entry point.  -> ('ok', rows, header|None, warnings) | ('err', class, message, rows written)."""
    out = []
    warnings = []
    hdr = []
    try:
        rbql_engine.query_table(text, T, out, warnings, B, ha, hb, hdr, normalize)
    except (rbql_engine.RbqlRuntimeError, rbql_engine.RbqlParsingError, rbql_engine.RbqlIOHandlingError) as e:
        return ('err', type(e).__name__, e.args[0] if e.args else '', out)
    except Exception as e:  # noqa -- a raw Python exception escaping the engine (e.g. unorderable sort keys at finish())
        return ('raw', type(e).__name__)
    return ('ok', out, hdr if len(hdr) else None, warnings)


def _hdr_norm(got, exp):
    """None entries of the expected header are wildcards (only the width is asserted there)."""
    if got is None or exp is None or len(got) != len(exp):
        return got
    return [None if exp[i] is None else got[i] for i in range(len(exp))]


def normalise(got, exp):
    """Brings the real outcome and the reference outcome to directly comparable values."""
    if exp[0] == 'raw' or got[0] == 'raw':
        return (got, exp)
    if exp[0] == 'err':
        e = ('err', exp[1], exp[2], True)
        if got[0] == 'err':
            msg = got[2]
            m = exp[2] if (isinstance(msg, str) and msg.startswith(exp[2])) else msg
            n = len(got[3])
            part_ok = n <= len(exp[3]) and got[3] == exp[3][:n]
            return (('err', got[1], m, part_ok), e)
        return (got, e)
    if got[0] == 'err':
        return (got, exp[:4])
    return (('ok', got[1], _hdr_norm(got[2], exp[2]), got[3]), exp[:4])


def with_headers(q, ha, hb):
    """Copy of q whose input / join headers are the given (possibly symbolic) name lists."""
    import copy
    q2 = copy.copy(q)
    q2.ha = ha
    q2.hb = hb
    return q2


def run_pair(q, text, T, B=None, check_sources=False, mutate_output=False, ha=None, hb=None):
    """(got, expected) for query q (rendered as `text`) over input T and join table B."""
    if ha is not None or hb is not None:
        q = with_headers(q, ha, hb)
    Tc = copy_table(T)
    Bc = copy_table(B)
    exp = rel.run(q, Tc, Bc)
    got = run_rbql(text, T, B, q.ha, q.hb)
    if check_sources:
        live_rows = got[1] if got[0] == 'ok' else (got[3] if got[0] == 'err' else [])
        if got[0] == 'ok':
            got = ('ok', [list(r) if isinstance(r, list) else r for r in got[1]], got[2], got[3])
        elif got[0] == 'err':
            got = ('err', got[1], got[2], [list(r) if isinstance(r, list) else r for r in got[3]])
        g, e = normalise(got, exp)
        if mutate_output:
            # overwrite and extend every record the query produced: if any of them aliases a source row, the source changes
            for r in live_rows:
                if isinstance(r, list):
                    for i in range(len(r)):
                        r[i] = 'MUT'
                    r.append('MUT')
        same_t = (T == Tc)
        same_b = (B == Bc)
        return ((g, same_t, same_b), (e, True, True))
    g, e = normalise(got, exp)
    return (g, e)


def run_pair_counting(q, text, T, cycle=0):
    """Consumption clause: the engine driven through rbql_engine.query with a counting user iterator.
    cycle > 0: the iterator is unbounded (it repeats T forever); the reference sees T repeated `cycle` times and must stop inside."""
    from vf import stubs
    Tc = copy_table(T)
    if cycle:
        ref_T = []
        for _ in range(cycle):
            ref_T += copy_table(T)
        exp = rel.run(q, ref_T, None)
        it = stubs.CyclicIterator(T)
    else:
        exp = rel.run(q, Tc, None)
        it = stubs.CountingIterator(T)
    out = []
    warnings = []
    w = rbql_engine.TableWriter(out)
    try:
        rbql_engine.query(text, it, w, warnings)
        got = ('ok', out, w.header, warnings)
    except (rbql_engine.RbqlRuntimeError, rbql_engine.RbqlParsingError, rbql_engine.RbqlIOHandlingError) as e:
        got = ('err', type(e).__name__, e.args[0] if e.args else '', out)
    g, e = normalise(got, exp)
    if exp[0] == 'ok':
        if cycle and exp[4] > len(ref_T):
            return ((g, it.calls), (e, 'reference did not stop inside %d repetitions' % cycle))
        return ((g[:3], it.calls), (e[:3], exp[4]))
    return (g, e)


# ------------------------------------------------------------------ generation

def concretize(v, domain):
    """Solver-driven enumeration of a small finite domain: on each path the symbolic value is replaced by the concrete member it equals,
    so that code which the engine cannot model symbolically (e.g. str() of a tuple) runs on plain Python values."""
    for d in domain:
        if v == d:
            return d
    raise AssertionError('value outside its enumerated domain')


def table_params(prefix, rows, slen=2, krange=None, irange=None, edomain=None, pdomain=('7', 'x')):
    """rows: list of rows, each a string of cell type codes:
       s = str (len <= slen), o = Optional[str], i = int, k = int in [0, krange), d = decimal digit string (1..slen digits), n = None (constant)
    -> (params, bounding pre lines, other pre lines, python expression building the table)"""
    params = []
    pre_b = []
    pre_o = []
    rows_expr = []
    for ri, row in enumerate(rows):
        cells = []
        for ci, code in enumerate(row):
            name = '%s%d%d' % (prefix, ri, ci)
            if code == 's':
                params.append((name, 'str'))
                pre_b.append('len(%s) <= %d' % (name, slen))
            elif code == 'o':
                params.append((name, 'Optional[str]'))
                pre_b.append('%s is None or len(%s) <= %d' % (name, name, slen))
            elif code == 'i':
                params.append((name, 'int'))
                if irange is not None:
                    pre_b.append('%d <= %s <= %d' % (irange[0], name, irange[1]))
            elif code == 'k':
                params.append((name, 'int'))
                pre_b.append('0 <= %s < %d' % (name, krange))
            elif code == 'd':
                params.append((name, 'str'))
                pre_b.append('1 <= len(%s) <= %d' % (name, slen))
                pre_o.append('%s.isdigit() and %s.isascii()' % (name, name))
            elif code == 'n':
                cells.append('None')
                continue
            elif code == 'z':
                cells.append("'z'")
                continue
            elif code == 'E':
                cells.append("''")      # the empty string (constant)
                continue
            elif code == 'e':
                # int enumerated (by the solver) over a small finite domain and made concrete per path
                params.append((name, 'int'))
                pre_b.append('%s in %r' % (name, tuple(edomain)))
                cells.append('qh.concretize(%s, %r)' % (name, tuple(edomain)))
                continue
            elif code == 'p':
                # one of two concrete strings chosen by a symbolic bool (e.g. a numeric string or a non-numeric "poison")
                params.append((name, 'bool'))
                cells.append('(%r if %s else %r)' % (pdomain[1], name, pdomain[0]))
                continue
            elif code in ('c', 'C'):
                # string of exactly 1 (c) or 2 (C) arbitrary characters, built from int code points (concrete length: much cheaper)
                parts = []
                for j in range(1 if code == 'c' else 2):
                    pn = '%s_%d' % (name, j)
                    params.append((pn, 'int'))
                    pre_b.append('0 <= %s < 0x110000' % pn)
                    parts.append('chr(%s)' % pn)
                cells.append('(' + ' + '.join(parts) + ')')
                continue
            else:
                raise ValueError(code)
            cells.append(name)
        rows_expr.append('[' + ', '.join(cells) + ']')
    return params, pre_b, pre_o, '[' + ', '.join(rows_expr) + ']'


def rotating(names, seed, k):
    """k members of `names` chosen by VERIF_SEED: repeated quick runs with different seeds sweep through the thorough family."""
    import random
    names = list(names)
    rnd = random.Random(1000003 * (seed + 1))
    rnd.shuffle(names)
    return names[:k]


def shape_name(rows):
    return '/'.join(r if r else '-' for r in rows) if rows else 'empty'


def header_params(prefix, spec, hlen):
    """spec: list of concrete names (str) or None (= symbolic name).  -> (params, pre lines, expression)"""
    params = []
    pre = []
    exprs = []
    for i, nm in enumerate(spec):
        if nm is None:
            v = '%s%d' % (prefix, i)
            params.append((v, 'str'))
            pre.append('len(%s) <= %d' % (v, hlen))
            exprs.append(v)
        else:
            exprs.append(repr(nm))
    for i in range(len(exprs)):
        for j in range(i + 1, len(exprs)):
            if spec[i] is None or spec[j] is None:
                pre.append('%s != %s' % (exprs[i], exprs[j]))
    return params, pre, '[' + ', '.join(exprs) + ']'


def query_obl(prop, case_name, q, a_rows, b_rows=None, slen=2, krange=None, irange=None, timeout=60, check_sources=False, mutate_output=False,
              expect='hold', finding=None, extra_pre=None, text=None, tag='', counting=False, cycle=0, ha_spec=None, hb_spec=None, hlen=2, edomain=None, pdomain=('7', 'x')):
    """Obligation: for every table of the given shape, real engine == reference on query case `case_name` of property module `prop`."""
    pa, pb1, po1, texpr = table_params('a', a_rows, slen, krange, irange, edomain, pdomain)
    params, pre_b, pre_o = list(pa), list(pb1), list(po1)
    bexpr = 'None'
    if b_rows is not None:
        pb, pb2, po2, bexpr = table_params('b', b_rows, slen, krange, irange, edomain, pdomain)
        params += pb
        pre_b += pb2
        pre_o += po2
    if not params:
        params = [('dummy', 'int')]
        pre_b = ['dummy == 0']
    haexpr = hbexpr = 'None'
    hpre = []
    if ha_spec is not None:
        hp, hpre1, haexpr = header_params('ha', ha_spec, hlen)
        params += hp
        hpre += hpre1
    if hb_spec is not None:
        hp, hpre2, hbexpr = header_params('hb', hb_spec, hlen)
        params += hp
        hpre += hpre2
    pre_b = [p for p in hpre if p.startswith('len(')] + pre_b
    pre_o = pre_o + [p for p in hpre if not p.startswith('len(')]
    text = text if text is not None else rel.render(q)
    imports = 'from vf import qh\nfrom vf.props import %s as P\nQ = P.CASES[%r]\nTEXT = %r\n' % (prop.lower(), case_name, text)
    body = indent('''
T = %s
B = %s
return %s
''' % (texpr, bexpr, ('qh.run_pair_counting(Q, TEXT, T, cycle=%d)' % cycle) if counting else ('qh.run_pair(Q, TEXT, T, B, check_sources=%r, mutate_output=%r, ha=%s, hb=%s)' % (check_sources, mutate_output, haexpr, hbexpr))))
    src = harness(imports, params, pre_b + pre_o + (extra_pre or []), body)
    name = '%s%s[A=%s%s]' % (case_name, tag, shape_name(a_rows), (',B=' + shape_name(b_rows)) if b_rows is not None else '')
    bounds = 'every input table of shape %s (s=str len<=%d, o=str|None, i=int, k=int<%s, d=digit string, c/C=str of exactly 1/2 chars)%s' % (
        shape_name(a_rows), slen, krange, (' and join table of shape ' + shape_name(b_rows)) if b_rows is not None else '')
    if ha_spec is not None:
        bounds += '; input header %r%s (None = any distinct Unicode name, len <= %d)' % (ha_spec, (' join header %r' % (hb_spec,)) if hb_spec is not None else '', hlen)
    return Obl(name, src, timeout=timeout, expect=expect, finding=finding, meta={'query': text, 'bounds': bounds})
