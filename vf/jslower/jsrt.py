"""JavaScript-semantics runtime for the lowered (ESTree -> Python) kernels of rbql-js.

Only what the lowered subset needs: loose/strict equality, truthiness, string / array / RegExp / Map built-ins, template
literals, Buffer and TextDecoder stubs.  Strings are Python str: the claims assume BMP text (UTF-16 code unit == code point).
Every unsupported member raises Unsupported (-> harness error, never a verdict).
"""
import re


class Unsupported(Exception):
    pass


class _Undefined(object):
    def __repr__(self):
        return 'undefined'

    def __bool__(self):
        return False


UNDEF = _Undefined()


class JSError(Exception):
    def __init__(self, message=''):
        Exception.__init__(self, message)
        self.message = message


class JSTypeError(JSError):
    pass


def truthy(x):
    if x is None or x is UNDEF:
        return False
    if x is True or x is False:
        return x
    if isinstance(x, str):
        return len(x) > 0
    if isinstance(x, (int, float)):
        return x != 0
    return True


def seq(a, b):
    """a === b"""
    if a is UNDEF or b is UNDEF:
        return a is b
    if a is None or b is None:
        return a is b
    if isinstance(a, bool) != isinstance(b, bool):
        return False
    if isinstance(a, str) != isinstance(b, str):
        return False
    if isinstance(a, (list, dict)) or isinstance(b, (list, dict)):
        return a is b
    return a == b


def eq(a, b):
    """a == b (loose) for the operand kinds the kernels use: null/undefined, strings, numbers, numeric strings vs numbers."""
    an = a is None or a is UNDEF
    bn = b is None or b is UNDEF
    if an or bn:
        return an and bn
    if isinstance(a, str) and isinstance(b, (int, float)) and not isinstance(b, bool):
        return _to_number(a) == b
    if isinstance(b, str) and isinstance(a, (int, float)) and not isinstance(a, bool):
        return a == _to_number(b)
    return seq(a, b)


def _to_number(s):
    s = s.strip()
    if s == '':
        return 0
    try:
        return int(s)
    except ValueError:
        try:
            return float(s)
        except ValueError:
            return float('nan')


def to_number(x):
    if isinstance(x, bool):
        return 1 if x else 0
    if isinstance(x, (int, float)):
        return x
    if isinstance(x, str):
        return _to_number(x)
    if x is None:
        return 0
    return float('nan')


def floor(x):
    import math
    return math.floor(x)


def lt(a, b):
    if isinstance(a, str) and not isinstance(b, str):
        a = _to_number(a)
    if isinstance(b, str) and not isinstance(a, str):
        b = _to_number(b)
    return a < b


def to_str(x):
    if isinstance(x, str):
        return x
    if x is None:
        return 'null'
    if x is UNDEF:
        return 'undefined'
    if x is True:
        return 'true'
    if x is False:
        return 'false'
    if isinstance(x, int):
        return str(x)
    if isinstance(x, float):
        return str(int(x)) if x == int(x) else repr(x)
    if isinstance(x, list):
        return ','.join('' if (v is None or v is UNDEF) else to_str(v) for v in x)
    raise Unsupported('String() of %r' % type(x))


def add(a, b):
    if isinstance(a, str) or isinstance(b, str):
        return to_str(a) + to_str(b)
    if isinstance(a, list) or isinstance(b, list):
        return to_str(a) + to_str(b)
    return a + b


def tpl(*parts):
    return ''.join(to_str(p) for p in parts)


def and_(a, fb):
    return fb() if truthy(a) else a


def or_(a, fb):
    return a if truthy(a) else fb()


def idx(obj, i):
    if isinstance(obj, (str, list)):
        if isinstance(i, str):
            if i == 'length':
                return len(obj)
            i = _to_number(i)
        if isinstance(i, int) and 0 <= i < len(obj):
            return obj[i]
        return UNDEF
    if isinstance(obj, Match):
        return obj.group(i)
    if isinstance(obj, dict):
        return obj.get(i, UNDEF)
    if isinstance(obj, Buffer):
        if isinstance(i, int) and 0 <= i < len(obj.data):
            return obj.data[i]
        return UNDEF
    raise Unsupported('index on %r' % type(obj))


def setidx(obj, i, v):
    if isinstance(obj, list):
        if isinstance(i, int) and 0 <= i < len(obj):
            obj[i] = v
            return v
        if isinstance(i, int) and i == len(obj):
            obj.append(v)
            return v
        raise Unsupported('sparse array write')
    if isinstance(obj, dict):
        obj[i] = v
        return v
    raise Unsupported('index assignment on %r' % type(obj))


def get(obj, name):
    if isinstance(obj, (str, list)):
        if name == 'length':
            return len(obj)
        raise Unsupported('property %s of %s' % (name, type(obj).__name__))
    if isinstance(obj, Match):
        if name == 'length':
            return obj.ngroups + 1
        if name == 'index':
            return obj.index
        raise Unsupported('property %s of match' % name)
    if isinstance(obj, JSMap):
        if name == 'size':
            return len(obj.keys)
    if isinstance(obj, Buffer) and name == 'length':
        return len(obj.data)
    if isinstance(obj, dict):
        return obj.get(name, UNDEF)
    if obj is None or obj is UNDEF:
        raise JSTypeError('Cannot read properties of %s (reading %r)' % (to_str(obj), name))
    return getattr(obj, name, UNDEF)


def setattr_(obj, name, v):
    if isinstance(obj, dict):
        obj[name] = v
    else:
        setattr(obj, name, v)
    return v


# ------------------------------------------------------------------ RegExp

_JS_WS = '\\t\\n\\x0b\\x0c\\r \\xa0\\u1680\\u2000-\\u200a\\u2028\\u2029\\u202f\\u205f\\u3000\\ufeff'
_JS_CLASS = {'s': _JS_WS, 'S': _JS_WS, 'd': '0-9', 'D': '0-9', 'w': 'A-Za-z0-9_', 'W': 'A-Za-z0-9_'}


def _py_pattern(p):
    """JS pattern -> Python pattern for the constructs used by the kernels ($ -> \\Z outside classes; the rest is common syntax)."""
    out = []
    i = 0
    in_class = False
    while i < len(p):
        c = p[i]
        if c == '\\':
            esc = p[i:i + 2]
            # class escapes: ECMAScript's are ASCII / its own WhiteSpace + LineTerminator set, Python's str versions are Unicode-aware
            if esc[1:] in _JS_CLASS:
                body = _JS_CLASS[esc[1:]]
                if in_class:
                    if esc[1:].isupper():
                        raise Unsupported('negated class escape inside a character class')
                    out.append(body)
                else:
                    out.append(('[^' if esc[1:].isupper() else '[') + body + ']')
            else:
                out.append(esc)
            i += 2
            continue
        if in_class:
            if c == ']':
                in_class = False
            elif c == '[':
                out.append('\\[')    # a bare [ inside a class is literal in JS; Python warns about nested sets
                i += 1
                continue
            out.append(c)
        else:
            if c == '[':
                in_class = True
                out.append(c)
                if i + 1 < len(p) and p[i + 1] == '^':
                    out.append('^')
                    i += 1
                if i + 1 < len(p) and p[i + 1] == ']':
                    raise Unsupported('empty character class')
            elif c == '$':
                out.append('\\Z')
            else:
                out.append(c)
        i += 1
    return ''.join(out)


class Match(object):
    def __init__(self, m):
        self.m = m
        self.index = m.start()
        self.ngroups = m.re.groups

    def group(self, i):
        if not isinstance(i, int) or i < 0 or i > self.ngroups:
            return UNDEF
        g = self.m.group(i)
        return UNDEF if g is None else g


class RegExp(object):
    def __init__(self, pattern, flags=''):
        if isinstance(pattern, RegExp):
            pattern = pattern.source
        self.source = pattern
        self.flags = flags or ''
        for f in self.flags:
            if f not in 'gi':
                raise Unsupported('regex flag ' + f)
        self.is_global = 'g' in self.flags
        self.lastIndex = 0
        self.rx = re.compile(_py_pattern(pattern), re.IGNORECASE if 'i' in self.flags else 0)

    def exec(self, s):
        s = to_str(s)
        if self.is_global:
            if self.lastIndex > len(s):
                self.lastIndex = 0
                return None
            m = self.rx.search(s, self.lastIndex)
            if m is None:
                self.lastIndex = 0
                return None
            self.lastIndex = m.end() if m.end() > m.start() else m.end() + 1
            return Match(m)
        m = self.rx.search(s)
        return None if m is None else Match(m)

    def test(self, s):
        return self.exec(s) is not None


class JSMap(object):
    """Insertion-ordered Map keyed by === (keys used by the kernels are numbers / strings)."""

    def __init__(self):
        self.keys = []
        self.vals = []

    def _find(self, k):
        for i, x in enumerate(self.keys):
            if seq(x, k):
                return i
        return -1

    def has(self, k):
        return self._find(k) >= 0

    def get(self, k):
        i = self._find(k)
        return UNDEF if i < 0 else self.vals[i]

    def set(self, k, v):
        i = self._find(k)
        if i < 0:
            self.keys.append(k)
            self.vals.append(v)
        else:
            self.vals[i] = v
        return self

    def entries(self):
        return [[k, v] for k, v in zip(self.keys, self.vals)]


def _clamp(i, n):
    if i is UNDEF or i is None:
        return 0
    if i < 0:
        return 0
    if i > n:
        return n
    return i


def _rel(i, n, default):
    if i is UNDEF:
        return default
    if i < 0:
        return max(n + i, 0)
    return min(i, n)


def _split(s, sep, limit=UNDEF):
    if limit is not UNDEF:
        raise Unsupported('split limit')
    if isinstance(sep, RegExp):
        if sep.rx.groups:
            raise Unsupported('split on a regex with groups')
        res = []
        last = 0
        for m in sep.rx.finditer(s):
            if m.end() == m.start():
                raise Unsupported('split on an empty match')
            res.append(s[last:m.start()])
            last = m.end()
        res.append(s[last:])
        return res
    if sep == '':
        return [c for c in s]
    return s.split(sep)


def _replace(s, pat, rep):
    if not isinstance(rep, str):
        raise Unsupported('replace with a function')
    if isinstance(pat, RegExp):
        def sub(m):
            out = []
            i = 0
            while i < len(rep):
                if rep[i] == '$' and i + 1 < len(rep):
                    nx = rep[i + 1]
                    if nx == '&':
                        out.append(m.group(0))
                        i += 2
                        continue
                    if nx == '$':
                        out.append('$')
                        i += 2
                        continue
                    if nx.isdigit():
                        raise Unsupported('$n in replacement')
                out.append(rep[i])
                i += 1
            return ''.join(out)
        if pat.is_global:
            return pat.rx.sub(sub, s)
        return pat.rx.sub(sub, s, count=1)
    if '$' in rep:
        raise Unsupported('$ in replacement')
    return s.replace(pat, rep, 1)


def m(obj, name, *args):
    """obj.name(...args)"""
    a = list(args)
    if isinstance(obj, str):
        n = len(obj)
        if name == 'substring':
            s = _clamp(a[0] if a else 0, n)
            e = _clamp(a[1], n) if len(a) > 1 and a[1] is not UNDEF else n
            if s > e:
                s, e = e, s
            return obj[s:e]
        if name == 'slice':
            s = _rel(a[0] if a else 0, n, 0)
            e = _rel(a[1] if len(a) > 1 else UNDEF, n, n)
            return obj[s:e] if s < e else ''
        if name == 'indexOf':
            frm = _clamp(a[1], n) if len(a) > 1 else 0
            return obj.find(to_str(a[0]), frm)
        if name == 'charAt':
            i = a[0] if a else 0
            return obj[i] if 0 <= i < n else ''
        if name == 'charCodeAt':
            i = a[0] if a else 0
            return ord(obj[i]) if 0 <= i < n else float('nan')
        if name == 'startsWith':
            return obj.startswith(to_str(a[0]), a[1] if len(a) > 1 else 0)
        if name == 'endsWith':
            return obj.endswith(to_str(a[0]))
        if name == 'split':
            return _split(obj, a[0], a[1] if len(a) > 1 else UNDEF)
        if name == 'replace':
            return _replace(obj, a[0], a[1])
        if name == 'match':
            rx = a[0] if isinstance(a[0], RegExp) else RegExp(a[0])
            if rx.is_global:
                res = [mm.group(0) for mm in rx.rx.finditer(obj)]
                return res if res else None
            return rx.exec(obj)
        if name == 'trim':
            return obj.strip(' \t\n\r\x0b\x0c\xa0﻿  ')
        if name == 'toLowerCase':
            return obj.lower()
        if name == 'toUpperCase':
            return obj.upper()
        if name == 'toString':
            return obj
        raise Unsupported('String.prototype.' + name)
    if isinstance(obj, list):
        if name == 'push':
            obj.extend(a)
            return len(obj)
        if name == 'pop':
            return obj.pop() if obj else UNDEF
        if name == 'join':
            sep = ',' if not a or a[0] is UNDEF else to_str(a[0])
            return sep.join('' if (v is None or v is UNDEF) else to_str(v) for v in obj)
        if name == 'slice':
            n = len(obj)
            s = _rel(a[0] if a else 0, n, 0)
            e = _rel(a[1] if len(a) > 1 else UNDEF, n, n)
            return obj[s:e] if s < e else []
        if name == 'reverse':
            obj.reverse()
            return obj
        if name == 'map':
            return [a[0](v) for v in obj]
        if name == 'indexOf':
            for i, v in enumerate(obj):
                if seq(v, a[0]):
                    return i
            return -1
        if name == 'sort':
            import functools
            if a:
                obj.sort(key=functools.cmp_to_key(lambda x, y: a[0](x, y)))
            else:
                obj.sort(key=to_str)
            return obj
        if name == 'concat':
            res = list(obj)
            for x in a:
                if isinstance(x, list):
                    res.extend(x)
                else:
                    res.append(x)
            return res
        raise Unsupported('Array.prototype.' + name)
    if obj is None or obj is UNDEF:
        raise JSTypeError('Cannot read properties of %s (reading %r)' % (to_str(obj), name))
    f = getattr(obj, name, None)
    if f is None:
        raise JSTypeError('%s is not a function' % name)
    return f(*a)


def iter_(x):
    if isinstance(x, (list, str)):
        return list(x)
    if isinstance(x, JSMap):
        return x.entries()
    raise Unsupported('iteration over %r' % type(x))


def array_from(x):
    return iter_(x)


def parse_int(s, radix=10):
    s = to_str(s).strip()
    mm = re.match(r'[+-]?[0-9]+', s)
    if not mm:
        return float('nan')
    return int(mm.group(0))


def destructure(v, n):
    if isinstance(v, tuple):
        v = list(v)
    if not isinstance(v, list):
        raise Unsupported('destructuring a non-array')
    return [v[i] if i < len(v) else UNDEF for i in range(n)]


# ------------------------------------------------------------------ node stubs: Buffer and util.TextDecoder (pure Python over lists of ints,
# so that byte VALUES can stay symbolic under CrossHair; validated against real node on every run by vf/jslower/build.py)

REPLACEMENT = chr(0xFFFD)


def utf8_decode(data, fatal, final):
    """WHATWG utf-8 decoder over a list of byte values.  -> (text, pending bytes, had_error).
    final=False keeps an incomplete trailing sequence as pending; errors emit U+FFFD (or raise JSTypeError when fatal)."""
    out = []
    i = 0
    n = len(data)
    had_error = False
    while i < n:
        b0 = data[i]
        if b0 < 0x80:
            out.append(chr(b0))
            i += 1
            continue
        if 0xC2 <= b0 <= 0xDF:
            need, lo, hi, cp = 1, 0x80, 0xBF, b0 - 0xC0
        elif 0xE0 <= b0 <= 0xEF:
            need, cp = 2, b0 - 0xE0
            lo, hi = (0xA0, 0xBF) if b0 == 0xE0 else ((0x80, 0x9F) if b0 == 0xED else (0x80, 0xBF))
        elif 0xF0 <= b0 <= 0xF4:
            need, cp = 3, b0 - 0xF0
            lo, hi = (0x90, 0xBF) if b0 == 0xF0 else ((0x80, 0x8F) if b0 == 0xF4 else (0x80, 0xBF))
        else:
            if fatal:
                raise JSTypeError('The encoded data was not valid for encoding utf-8')
            had_error = True
            out.append(REPLACEMENT)
            i += 1
            continue
        j = i + 1
        ok = True
        incomplete = False
        k = 0
        while k < need:
            if j >= n:
                incomplete = True
                break
            bj = data[j]
            l, h = (lo, hi) if k == 0 else (0x80, 0xBF)
            if not (l <= bj <= h):
                ok = False
                break
            cp = cp * 64 + (bj - 0x80)
            j += 1
            k += 1
        if incomplete:
            if not final:
                return (''.join(out), list(data[i:]), had_error)
            ok = False
        if ok:
            out.append(chr(cp))
            i = j
        else:
            if fatal:
                raise JSTypeError('The encoded data was not valid for encoding utf-8')
            had_error = True
            out.append(REPLACEMENT)
            i = j        # the maximal valid prefix of the ill-formed sequence is replaced by ONE U+FFFD
    return (''.join(out), [], had_error)


def utf8_encode(text):
    """Buffer.from(text, 'utf-8'): list of byte values (a lone surrogate is encoded as U+FFFD, as Node does)."""
    out = []
    for ch in text:
        cp = ord(ch)
        if cp < 0x80:
            out.append(cp)
        elif cp < 0x800:
            out.append(0xC0 + cp // 64)
            out.append(0x80 + cp % 64)
        elif cp < 0x10000:
            if 0xD800 <= cp <= 0xDFFF:
                out.extend([0xEF, 0xBF, 0xBD])
            else:
                out.append(0xE0 + cp // 4096)
                out.append(0x80 + (cp // 64) % 64)
                out.append(0x80 + cp % 64)
        else:
            out.append(0xF0 + cp // 262144)
            out.append(0x80 + (cp // 4096) % 64)
            out.append(0x80 + (cp // 64) % 64)
            out.append(0x80 + cp % 64)
    return out


class Buffer(object):
    """List-of-ints buffer with the decodings the reader uses."""

    def __init__(self, data):
        self.data = list(data)
        self.invalid = False

    def toString(self, encoding='utf-8'):
        if encoding in ('binary', 'latin1', 'latin-1'):
            return ''.join([chr(b) for b in self.data])
        if encoding in ('utf-8', 'utf8', None) or encoding is UNDEF:
            text, _p, err = utf8_decode(self.data, False, True)
            self.invalid = err
            return text
        raise Unsupported('Buffer.toString(%r)' % (encoding,))


class TextDecoder(object):
    """util.TextDecoder per the WHATWG Encoding standard / Node documentation, utf-8 only.
    Constructor options: fatal, ignoreBOM (any other key, e.g. `stream`, is ignored -- as in Node).
    decode(chunk, {stream}) : stream=true keeps an incomplete trailing sequence for the next call; otherwise an incomplete sequence is
    an error (TypeError when fatal) and the "BOM seen" state is reset after the call."""

    def __init__(self, encoding='utf-8', options=None):
        if encoding not in ('utf-8', 'utf8'):
            raise Unsupported('TextDecoder(%r)' % (encoding,))
        options = options or {}
        self.fatal = truthy(options.get('fatal', False))
        self.ignoreBOM = truthy(options.get('ignoreBOM', False))
        self.pending = []
        self.bom_seen = False

    def decode(self, chunk=None, options=None):
        options = options or {}
        stream = truthy(options.get('stream', False))
        data = self.pending + (list(chunk.data) if chunk is not None else [])
        self.pending = []
        try:
            text, pending, _err = utf8_decode(data, self.fatal, not stream)
        except JSTypeError:
            self.bom_seen = False
            raise
        self.pending = pending
        if not self.ignoreBOM and not self.bom_seen and len(text) > 0:
            if text[0] == chr(0xFEFF):
                text = text[1:]
            self.bom_seen = True
        if not stream:
            self.bom_seen = False
        return text
