"""ESTree (acorn, bundled with node) -> Python source, for the synchronous string-level kernels of rbql-js.

Regenerated from /repo/rbql-js/*.js on every run.  Anything outside the supported subset raises LowerError (harness error, never
a verdict).  Async methods and functions are skipped (they are outside every claim); top-level statements other than function /
class / simple constant declarations are skipped.
"""
import json
import os
import subprocess

HERE = os.path.dirname(os.path.abspath(__file__))


class LowerError(Exception):
    pass


def parse_js(path):
    p = subprocess.run(['node', '--expose-internals', os.path.join(HERE, 'dump_ast.js'), path], capture_output=True, text=True, timeout=60)
    if p.returncode != 0:
        raise LowerError('acorn failed on %s: %s' % (path, p.stderr[-400:]))
    return json.loads(p.stdout)


PY_KEYWORDS = {'from', 'in', 'is', 'not', 'and', 'or', 'def', 'class', 'lambda', 'pass', 'None', 'True', 'False', 'global', 'nonlocal', 'del', 'print', 'exec', 'with', 'as',
               'assert', 'raise', 'try', 'except', 'finally', 'yield', 'import', 'match', 'str', 'list', 'len', 'type', 'id', 'object', 'set', 'map', 'filter', 'range', 'js'}


def pyname(n):
    return n + '_' if n in PY_KEYWORDS else n


class Lowerer(object):
    def __init__(self, ast, module_aliases=None, known_classes=None):
        self.ast = ast
        self.module_aliases = module_aliases or {}     # JS identifier -> python expression (e.g. csv_utils -> csv_utils)
        self.known_classes = set(known_classes or [])  # classes defined in this module (new X(...) -> X(...))
        self.tmp = 0
        self.skipped = []
        self.lowered = []

    # ---------------------------------------------------------------- expressions
    def ex(self, n):
        t = n['type']
        f = getattr(self, 'ex_' + t, None)
        if f is None:
            raise LowerError('unsupported expression %s at line %s' % (t, n.get('loc', {}).get('start', {}).get('line')))
        return f(n)

    def ex_Identifier(self, n):
        nm = n['name']
        if nm == 'undefined':
            return 'js.UNDEF'
        if nm in self.module_aliases:
            return self.module_aliases[nm]
        return pyname(nm)

    def ex_Literal(self, n):
        if 'regex' in n:
            return 'js.RegExp(%r, %r)' % (n['regex']['pattern'], n['regex']['flags'])
        v = n['value']
        if v is None:
            return 'None'
        if v is True:
            return 'True'
        if v is False:
            return 'False'
        if isinstance(v, float) and v == int(v):
            return repr(int(v))
        return repr(v)

    def ex_ThisExpression(self, n):
        return 'self'

    def ex_TemplateLiteral(self, n):
        parts = []
        for i, q in enumerate(n['quasis']):
            if q['value']['cooked']:
                parts.append(repr(q['value']['cooked']))
            if i < len(n['expressions']):
                parts.append(self.ex(n['expressions'][i]))
        return 'js.tpl(%s)' % ', '.join(parts)

    def ex_ArrayExpression(self, n):
        return '[' + ', '.join(self.ex(e) for e in n['elements']) + ']'

    def ex_ObjectExpression(self, n):
        items = []
        for p in n['properties']:
            if p['type'] != 'Property' or p.get('computed') or p['kind'] != 'init':
                raise LowerError('unsupported object property')
            k = p['key']['name'] if p['key']['type'] == 'Identifier' else p['key']['value']
            items.append('%r: %s' % (k, self.ex(p['value'])))
        return '{' + ', '.join(items) + '}'

    def ex_UnaryExpression(self, n):
        op = n['operator']
        a = self.ex(n['argument'])
        if op == '!':
            return '(not js.truthy(%s))' % a
        if op == '-':
            return '(-%s)' % a
        if op == '+':
            return '(+%s)' % a
        raise LowerError('unary ' + op)

    def ex_BinaryExpression(self, n):
        op = n['operator']
        a, b = self.ex(n['left']), self.ex(n['right'])
        if op == '==':
            return 'js.eq(%s, %s)' % (a, b)
        if op == '!=':
            return '(not js.eq(%s, %s))' % (a, b)
        if op == '===':
            return 'js.seq(%s, %s)' % (a, b)
        if op == '!==':
            return '(not js.seq(%s, %s))' % (a, b)
        if op == '+':
            return 'js.add(%s, %s)' % (a, b)
        if op in ('-', '*', '%'):
            return '(%s %s %s)' % (a, op, b)
        if op == '<':
            return 'js.lt(%s, %s)' % (a, b)
        if op == '>':
            return 'js.lt(%s, %s)' % (b, a)
        if op == '<=':
            return '(not js.lt(%s, %s))' % (b, a)
        if op == '>=':
            return '(not js.lt(%s, %s))' % (a, b)
        if op == 'instanceof':
            return 'isinstance(%s, %s)' % (a, {'TypeError': 'js.JSTypeError', 'Error': 'js.JSError'}.get(b, b))
        raise LowerError('binary ' + op)

    def ex_LogicalExpression(self, n):
        a, b = self.ex(n['left']), self.ex(n['right'])
        if n['operator'] == '&&':
            return 'js.and_(%s, lambda: %s)' % (a, b)
        if n['operator'] == '||':
            return 'js.or_(%s, lambda: %s)' % (a, b)
        raise LowerError('logical ' + n['operator'])

    def ex_ConditionalExpression(self, n):
        return '(%s if js.truthy(%s) else %s)' % (self.ex(n['consequent']), self.ex(n['test']), self.ex(n['alternate']))

    def ex_MemberExpression(self, n):
        obj = self.ex(n['object'])
        if n['computed']:
            return 'js.idx(%s, %s)' % (obj, self.ex(n['property']))
        name = n['property']['name']
        if n['object']['type'] == 'Identifier' and n['object']['name'] in self.module_aliases:
            return '%s.%s' % (obj, pyname(name))
        return 'js.get(%s, %r)' % (obj, name)

    def ex_CallExpression(self, n):
        callee = n['callee']
        args = [self.ex(a) for a in n['arguments']]
        if callee['type'] == 'MemberExpression' and not callee['computed']:
            oname = callee['object'].get('name') if callee['object']['type'] == 'Identifier' else None
            mname = callee['property']['name']
            if oname == 'Array' and mname == 'isArray':
                return 'isinstance(%s, list)' % args[0]
            if oname == 'Array' and mname == 'from':
                return 'js.array_from(%s)' % args[0]
            if oname == 'Math' and mname in ('max', 'min'):
                return '%s(%s)' % (mname, ', '.join(args))
            if oname == 'Math' and mname == 'floor':
                return 'js.floor(%s)' % args[0]
            if oname in self.module_aliases:
                return '%s.%s(%s)' % (self.module_aliases[oname], pyname(mname), ', '.join(args))
            if callee['object']['type'] == 'Super':
                return 'None'
            return 'js.m(%s)' % ', '.join([self.ex(callee['object']), repr(mname)] + args)
        if callee['type'] == 'Super':
            return 'None'
        if callee['type'] == 'Identifier':
            nm = callee['name']
            if nm == 'String':
                return 'js.to_str(%s)' % args[0]
            if nm == 'Boolean':
                return 'js.truthy(%s)' % (args[0] if args else 'js.UNDEF')
            if nm == 'Number':
                return 'js.to_number(%s)' % args[0]
            if nm == 'parseInt':
                return 'js.parse_int(%s)' % ', '.join(args)
            return '%s(%s)' % (pyname(nm), ', '.join(args))
        raise LowerError('call of %s' % callee['type'])

    def ex_NewExpression(self, n):
        callee = n['callee']
        args = [self.ex(a) for a in n['arguments']]
        if callee['type'] == 'Identifier':
            nm = callee['name']
            m = {'RegExp': 'js.RegExp', 'Map': 'js.JSMap', 'Error': 'js.JSError', 'TypeError': 'js.JSTypeError', 'Object': 'dict'}
            if nm in m:
                return '%s(%s)' % (m[nm], ', '.join(args))
            return '%s(%s)' % (pyname(nm), ', '.join(args))
        if callee['type'] == 'MemberExpression' and not callee['computed']:
            return '%s(%s)' % (self.ex_static_member(callee), ', '.join(args))
        raise LowerError('new of %s' % callee['type'])

    def ex_static_member(self, n):
        obj = n['object']
        if obj['type'] == 'Identifier' and obj['name'] in self.module_aliases:
            return '%s.%s' % (self.module_aliases[obj['name']], pyname(n['property']['name']))
        raise LowerError('new on a non-module member')

    def ex_AssignmentExpression(self, n):
        # only as an expression inside conditions: simple identifiers via the walrus operator
        if n['left']['type'] == 'Identifier' and n['operator'] == '=':
            return '(%s := %s)' % (pyname(n['left']['name']), self.ex(n['right']))
        raise LowerError('assignment used as an expression')

    def ex_ArrowFunctionExpression(self, n):
        return self.fn_expr(n)

    def ex_FunctionExpression(self, n):
        return self.fn_expr(n)

    def fn_expr(self, n):
        if n.get('async'):
            raise LowerError('async function expression')
        params = [self.param(p) for p in n['params']]
        body = n['body']
        if body['type'] != 'BlockStatement':
            return '(lambda %s: %s)' % (', '.join(params), self.ex(body))
        st = body['body']
        if len(st) == 1 and st[0]['type'] == 'ReturnStatement' and st[0]['argument'] is not None:
            return '(lambda %s: %s)' % (', '.join(params), self.ex(st[0]['argument']))
        raise LowerError('multi-statement function expression')

    def param(self, p):
        if p['type'] == 'Identifier':
            return pyname(p['name'])
        if p['type'] == 'AssignmentPattern' and p['left']['type'] == 'Identifier':
            return '%s=%s' % (pyname(p['left']['name']), self.ex(p['right']))
        raise LowerError('parameter pattern ' + p['type'])

    # ---------------------------------------------------------------- statements
    def block(self, n, ind):
        body = n['body'] if n['type'] == 'BlockStatement' else [n]
        lines = []
        for s in body:
            lines += self.st(s, ind)
        if not lines:
            lines = [ind + 'pass']
        return lines

    def st(self, n, ind):
        t = n['type']
        f = getattr(self, 'st_' + t, None)
        if f is None:
            raise LowerError('unsupported statement %s at line %s' % (t, n.get('loc', {}).get('start', {}).get('line')))
        return f(n, ind)

    def st_EmptyStatement(self, n, ind):
        return []

    def st_BlockStatement(self, n, ind):
        return self.block(n, ind)

    def st_VariableDeclaration(self, n, ind):
        lines = []
        for d in n['declarations']:
            init = self.ex(d['init']) if d['init'] is not None else 'js.UNDEF'
            lines += self.assign_target(d['id'], init, ind)
        return lines

    def assign_target(self, target, value, ind):
        t = target['type']
        if t == 'Identifier':
            return ['%s%s = %s' % (ind, pyname(target['name']), value)]
        if t == 'ArrayPattern':
            names = []
            for e in target['elements']:
                if e is None or e['type'] != 'Identifier':
                    raise LowerError('array pattern element')
                names.append(pyname(e['name']))
            return ['%s%s = js.destructure(%s, %d)' % (ind, ', '.join(names) + (',' if len(names) == 1 else ''), value, len(names))]
        if t == 'MemberExpression':
            obj = self.ex(target['object'])
            if target['computed']:
                return ['%sjs.setidx(%s, %s, %s)' % (ind, obj, self.ex(target['property']), value)]
            return ['%sjs.setattr_(%s, %r, %s)' % (ind, obj, target['property']['name'], value)]
        raise LowerError('assignment target ' + t)

    def st_ExpressionStatement(self, n, ind):
        e = n['expression']
        if e['type'] == 'AssignmentExpression':
            op = e['operator']
            if op == '=':
                return self.assign_target(e['left'], self.ex(e['right']), ind)
            if op in ('+=', '-='):
                cur = self.ex(e['left'])
                val = ('js.add(%s, %s)' % (cur, self.ex(e['right']))) if op == '+=' else ('(%s - %s)' % (cur, self.ex(e['right'])))
                return self.assign_target(e['left'], val, ind)
            raise LowerError('assignment operator ' + op)
        if e['type'] == 'UpdateExpression':
            return self.update(e, ind)
        if e['type'] == 'CallExpression' and e['callee']['type'] == 'Super':
            return []
        return [ind + self.ex(e)]

    def update(self, e, ind):
        cur = self.ex(e['argument'])
        val = '(%s %s 1)' % (cur, '+' if e['operator'] == '++' else '-')
        return self.assign_target(e['argument'], val, ind)

    def st_ReturnStatement(self, n, ind):
        return [ind + 'return ' + (self.ex(n['argument']) if n['argument'] is not None else 'js.UNDEF')]

    def st_IfStatement(self, n, ind):
        lines = ['%sif js.truthy(%s):' % (ind, self.ex(n['test']))]
        lines += self.block(n['consequent'], ind + '    ')
        alt = n.get('alternate')
        if alt is not None:
            lines.append(ind + 'else:')
            lines += self.block(alt, ind + '    ')
        return lines

    def st_WhileStatement(self, n, ind):
        lines = ['%swhile js.truthy(%s):' % (ind, self.ex(n['test']))]
        lines += self.block(n['body'], ind + '    ')
        return lines

    def _has(self, n, types):
        if isinstance(n, dict):
            if n.get('type') in types:
                return True
            if n.get('type') in ('FunctionExpression', 'ArrowFunctionExpression', 'FunctionDeclaration'):
                return False
            return any(self._has(v, types) for v in n.values())
        if isinstance(n, list):
            return any(self._has(v, types) for v in n)
        return False

    def st_ForStatement(self, n, ind):
        if self._has(n['body'], ('ContinueStatement',)):
            raise LowerError('continue inside a for loop')
        lines = []
        if n['init'] is not None:
            lines += self.st(n['init'], ind) if n['init']['type'] == 'VariableDeclaration' else self.st({'type': 'ExpressionStatement', 'expression': n['init']}, ind)
        lines.append('%swhile js.truthy(%s):' % (ind, self.ex(n['test']) if n['test'] is not None else 'True'))
        lines += self.block(n['body'], ind + '    ')
        if n['update'] is not None:
            lines += self.st({'type': 'ExpressionStatement', 'expression': n['update']}, ind + '    ')
        return lines

    def st_ForOfStatement(self, n, ind):
        left = n['left']
        if left['type'] == 'VariableDeclaration':
            left = left['declarations'][0]['id']
        if left['type'] == 'Identifier':
            tgt = pyname(left['name'])
        elif left['type'] == 'ArrayPattern':
            tgt = ', '.join(pyname(e['name']) for e in left['elements'])
        else:
            raise LowerError('for-of target')
        lines = ['%sfor %s in js.iter_(%s):' % (ind, tgt, self.ex(n['right']))]
        lines += self.block(n['body'], ind + '    ')
        return lines

    def st_BreakStatement(self, n, ind):
        return [ind + 'break']

    def st_ContinueStatement(self, n, ind):
        return [ind + 'continue']

    def st_ThrowStatement(self, n, ind):
        return [ind + 'raise ' + self.ex(n['argument'])]

    def st_TryStatement(self, n, ind):
        lines = [ind + 'try:'] + self.block(n['block'], ind + '    ')
        h = n.get('handler')
        if h is not None:
            nm = pyname(h['param']['name']) if h.get('param') else '_e'
            lines.append('%sexcept Exception as %s:' % (ind, nm))
            lines += self.block(h['body'], ind + '    ')
        if n.get('finalizer'):
            lines.append(ind + 'finally:')
            lines += self.block(n['finalizer'], ind + '    ')
        return lines

    def st_FunctionDeclaration(self, n, ind):
        return self.function(n['id']['name'], n, ind, method=False)

    def function(self, name, fn, ind, method):
        params = [self.param(p) for p in fn['params']]
        if method:
            params = ['self'] + params
        lines = ['%sdef %s(%s):' % (ind, pyname(name), ', '.join(params))]
        lines += self.block(fn['body'], ind + '    ')
        lines.append('')
        return lines

    def st_ClassDeclaration(self, n, ind):
        name = n['id']['name']
        sup = n.get('superClass')
        base = 'object'
        if sup is not None:
            if sup['type'] == 'Identifier' and sup['name'] == 'Error':
                base = 'js.JSError'
            elif sup['type'] == 'Identifier' and sup['name'] in self.known_classes:
                base = sup['name']
        lines = ['%sclass %s(%s):' % (ind, name, base)]
        body = []
        for md in n['body']['body']:
            if md['type'] != 'MethodDefinition' or md.get('static') or md['kind'] not in ('constructor', 'method'):
                raise LowerError('class member ' + md['type'])
            mname = md['key']['name']
            fn = md['value']
            if fn.get('async') or fn.get('generator'):
                self.skipped.append('%s.%s (async)' % (name, mname))
                body += ['%s    def %s(self, *a, **k):' % (ind, pyname(mname)), '%s        raise js.Unsupported(%r)' % (ind, 'async method %s.%s is outside the lowered subset' % (name, mname)), '']
                continue
            try:
                body += self.function('__init__' if md['kind'] == 'constructor' else mname, fn, ind + '    ', method=True)
                self.lowered.append('%s.%s' % (name, mname))
            except LowerError as e:
                self.skipped.append('%s.%s (%s)' % (name, mname, e))
                body += ['%s    def %s(self, *a, **k):' % (ind, pyname(mname)), '%s        raise js.Unsupported(%r)' % (ind, 'method %s.%s not lowered: %s' % (name, mname, e)), '']
        if not body:
            body = [ind + '    pass']
        return lines + body + ['']

    # ---------------------------------------------------------------- module
    def module(self, want=None):
        """want: set of top-level function / class names to lower (None = all that can be lowered)."""
        out = []
        top = self.ast['body']
        if len(top) == 1 and top[0]['type'] == 'ExpressionStatement' and top[0]['expression']['type'] == 'CallExpression' \
                and top[0]['expression']['callee']['type'] in ('FunctionExpression', 'ArrowFunctionExpression'):
            top = top[0]['expression']['callee']['body']['body']     # module wrapped in an immediately invoked function
        for n in top:
            t = n['type']
            try:
                if t == 'FunctionDeclaration':
                    name = n['id']['name']
                    if want is not None and name not in want:
                        continue
                    if n.get('async'):
                        self.skipped.append(name + ' (async)')
                        continue
                    out += self.st(n, '')
                    self.lowered.append(name)
                elif t == 'ClassDeclaration':
                    name = n['id']['name']
                    if want is not None and name not in want:
                        continue
                    self.known_classes.add(name)
                    out += self.st(n, '')
                elif t == 'VariableDeclaration':
                    for d in n['declarations']:
                        init = d.get('init')
                        if d['id']['type'] != 'Identifier' or init is None:
                            continue
                        if init['type'] == 'CallExpression' and init['callee'].get('name') == 'require':
                            continue
                        if want is not None and d['id']['name'] not in want:
                            continue
                        out += self.assign_target(d['id'], self.ex(init), '')
                        self.lowered.append(d['id']['name'])
            except LowerError as e:
                nm = n.get('id', {}).get('name') if isinstance(n.get('id'), dict) else None
                if want is not None and nm in want:
                    raise
                self.skipped.append('%s (%s)' % (nm or t, e))
        return '\n'.join(out) + '\n'


HEADER = '''# lowered from %s by vf/jslower/lower.py -- regenerated on every run, do not edit
from vf.jslower import jsrt as js
'''


def lower_file(path, want=None, module_aliases=None, prelude=''):
    ast = parse_js(path)
    lw = Lowerer(ast, module_aliases)
    body = lw.module(want)
    return HEADER % path + prelude + '\n' + body, lw
