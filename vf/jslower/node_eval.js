// usage: node node_eval.js  (JSON on stdin: {module: <abs path>, calls: [[fname, arg...], ...]}) -> JSON list of {ok: value} | {err: name, msg: text}
const chunks = [];
process.stdin.on('data', c => chunks.push(c));
process.stdin.on('end', () => {
    const req = JSON.parse(Buffer.concat(chunks).toString('utf-8'));
    const mod = require(req.module);
    const out = [];
    for (const call of req.calls) {
        try {
            const f = mod[call[0]];
            if (typeof f !== 'function') { out.push({err: 'NoSuchExport', msg: call[0]}); continue; }
            const r = f.apply(null, call.slice(1));
            out.push({ok: r === undefined ? null : r});
        } catch (e) {
            out.push({err: e.constructor.name, msg: String(e.message)});
        }
    }
    process.stdout.write(JSON.stringify(out));
});
