"""Builds the lowered Python modules from /repo/rbql-js on every run and validates them against real node."""
import importlib.util
import json
import os
import random
import subprocess
import sys

from vf.jslower import lower

HERE = os.path.dirname(os.path.abspath(__file__))
VERIF = os.path.dirname(os.path.dirname(HERE))
OUT = os.path.join(VERIF, 'build', 'jslowered')
from vf.paths import REPO
JS = REPO + '/rbql-js'


def _load(name, path):
    spec = importlib.util.spec_from_file_location(name, path)
    m = importlib.util.module_from_spec(spec)
    sys.modules[name] = m
    spec.loader.exec_module(m)
    return m


HAVE_READER = True

RBQL_WANT = {'AssertionError', 'RbqlParsingError', 'assert', 'sample_first_two_inconsistent_records', 'check_if_brackets_match', 'parse_root_bracket_level_text_spans',
             'unquote_string', 'column_info_from_text_span', 'adhoc_parse_select_expression_to_column_infos', 'select_output_header', 'regexp_escape', 'like_to_regex',
             'str_strip', 'get_all_matches', 'replace_star_count', 'replace_star_vars', 'replace_star_vars_for_header_parsing', 'translate_select_expression', 'separate_string_literals'}
CSV_WANT = {'utf_decoding_error', 'RbqlIOHandlingError', 'AssertionError', 'assert', 'remove_utf8_bom', 'make_inconsistent_num_fields_warning', 'RecordQueue', 'CSVRecordIterator',
            'interpret_named_csv_format'}

CSV_PRELUDE = '''
import types
from vf.jslower import build as _b
csv_utils = _b._load('js_csv_utils', _b.path_of('js_csv_utils'))
_rbql = _b._load('js_rbql', _b.path_of('js_rbql'))
rbql = types.SimpleNamespace(RBQLInputIterator=object, sample_first_two_inconsistent_records=_rbql.sample_first_two_inconsistent_records)
util = types.SimpleNamespace(TextDecoder=js.TextDecoder)


class TextBuffer(object):
    """Buffer stub for the text-level claims: models "decoding this blob succeeds and yields `text`"."""
    def __init__(self, text):
        self.text = text
    def toString(self, encoding=None):
        return self.text


class BufferNS(object):
    @staticmethod
    def from_(s, encoding=None):
        if encoding not in (None, 'utf-8', 'utf8'):
            raise js.Unsupported('Buffer.from(..., %r)' % (encoding,))
        return js.Buffer(js.utf8_encode(s))
    @staticmethod
    def compare(a, b):
        if isinstance(a, TextBuffer) or isinstance(b, TextBuffer):
            return 0          # the text stub stands for a blob that decodes without error to exactly this text
        if len(a.data) != len(b.data):
            return 1
        for x, y in zip(a.data, b.data):
            if x != y:
                return 1
        return 0
'''

CSV_EPILOGUE = '''

def _drain(it):
    recs = []
    while True:
        r = it.produced_records_queue.dequeue()
        if r is None:
            break
        recs.append(r)
    return recs


def read_bulk_text(text, encoding, delim, policy, has_header, comment_prefix):
    """Drives the lowered reader the way process_data_bulk is driven (csv_path mode), on a stub blob that decodes to `text`."""
    it = CSVRecordIterator(None, '/dev/null', encoding, delim, policy, has_header, comment_prefix)
    it.started = True
    it.process_data_bulk(TextBuffer(text))
    if it.current_exception is not None:
        e = it.current_exception
        return ('io', e.message) if isinstance(e, RbqlIOHandlingError) else ('raw', type(e).__name__)
    return ('ok', _drain(it), it.get_warnings())


def read_stream_chunks(chunks, encoding, delim, policy, comment_prefix):
    """Drives the lowered reader the way a Readable drives it: one process_data_stream_chunk per Buffer, then process_data_stream_end."""
    it = CSVRecordIterator(object(), None, encoding, delim, policy, False, comment_prefix)
    it.started = True
    for c in chunks:
        it.process_data_stream_chunk(c)
    it.process_data_stream_end()
    if it.current_exception is not None:
        e = it.current_exception
        return ('io', e.message) if isinstance(e, RbqlIOHandlingError) else ('raw', type(e).__name__)
    return ('ok', _drain(it), it.get_warnings())
'''

_PATHS = {}


def path_of(name):
    return os.path.join(OUT, name + '.py')


def build():
    """-> dict(module name -> path), report"""
    os.makedirs(OUT, exist_ok=True)
    report = {}
    src, lw = lower.lower_file(os.path.join(JS, 'csv_utils.js'))
    p1 = os.path.join(OUT, 'js_csv_utils.py')
    open(p1, 'w').write(src)
    report['csv_utils.js'] = {'lowered': lw.lowered, 'skipped': lw.skipped}
    _PATHS['js_csv_utils'] = p1
    src, lw = lower.lower_file(os.path.join(JS, 'rbql.js'), want=RBQL_WANT)
    p2 = os.path.join(OUT, 'js_rbql.py')
    open(p2, 'w').write(src)
    report['rbql.js'] = {'lowered': lw.lowered, 'skipped': lw.skipped}
    _PATHS['js_rbql'] = p2
    src, lw = lower.lower_file(os.path.join(JS, 'rbql_csv.js'), want=CSV_WANT, module_aliases={'csv_utils': 'csv_utils', 'rbql': 'rbql', 'util': 'util', 'Buffer': 'BufferNS'}, prelude=CSV_PRELUDE)
    p3 = os.path.join(OUT, 'js_rbql_csv.py')
    open(p3, 'w').write(src + CSV_EPILOGUE)
    report['rbql_csv.js'] = {'lowered': lw.lowered, 'skipped': lw.skipped}
    _PATHS['js_rbql_csv'] = p3
    needed = ['CSVRecordIterator.constructor', 'CSVRecordIterator.process_line', 'CSVRecordIterator.process_record_line', 'CSVRecordIterator.process_record_line_simple',
              'CSVRecordIterator.process_partial_rfc_record_line', 'CSVRecordIterator.process_data_bulk', 'CSVRecordIterator.process_data_stream_chunk',
              'CSVRecordIterator.process_data_stream_end', 'CSVRecordIterator.get_warnings', 'CSVRecordIterator.store_or_propagate_exception', 'CSVRecordIterator.try_resolve_next_record']
    missing = [m for m in needed if m not in lw.lowered]
    if missing:
        raise lower.LowerError('reader methods not lowered: %s; skipped: %s' % (missing, lw.skipped))
    return dict(_PATHS), report


def node_calls(module_path, calls, timeout=120):
    p = subprocess.run(['node', os.path.join(HERE, 'node_eval.js')], input=json.dumps({'module': module_path, 'calls': calls}), capture_output=True, text=True, timeout=timeout)
    if p.returncode != 0:
        raise lower.LowerError('node failed: ' + p.stderr[-400:])
    return json.loads(p.stdout)


def py_calls(mod, calls):
    from vf.jslower import jsrt
    out = []
    for c in calls:
        try:
            r = getattr(mod, c[0])(*c[1:])
            out.append({'ok': None if r is jsrt.UNDEF else r})
        except jsrt.Unsupported:
            raise
        except Exception as e:  # noqa
            out.append({'err': type(e).__name__, 'msg': str(e)})
    return out


def validate_csv_utils(seed=0, n=1500):
    """Differential validation of the lowering: real node vs lowered code on concrete vectors.  Returns None or an error text."""
    mods, report = build()
    mod = _load('js_csv_utils', mods['js_csv_utils'])
    rnd = random.Random(seed)
    alpha = ['a', 'b', '"', ',', ' ', ';', '\t', '\n', '\r', '#', 'é', '€']
    calls = []
    for s in ['', ',', 'a,b', '"a,b",c', ' "x" , y', '"a""b"', '"a"b', 'a,"', '"', ' ', 'a b  c', '"a\nb",c', 'a,,', '""', ' "" ', '"a" x,b']:
        for d in (',', ' ', ';', '\t'):
            for pol in ('quoted', 'quoted_rfc', 'simple', 'whitespace', 'monocolumn'):
                for pres in (False, True):
                    calls.append(['smart_split', s, d, pol, pres])
            calls.append(['quote_field', s, d])
            calls.append(['rfc_quote_field', s, d])
        calls.append(['unquote_field', s])
        calls.append(['split_lines', s])
    for _ in range(n):
        s = ''.join(rnd.choice(alpha) for _ in range(rnd.randint(0, 9)))
        d = rnd.choice([',', ' ', ';', '\t', '|'])
        calls.append(['smart_split', s, d, rnd.choice(['quoted', 'quoted_rfc', 'simple', 'whitespace']), rnd.random() < 0.5])
        calls.append(['quote_field', s, d])
        calls.append(['rfc_quote_field', s, d])
        calls.append(['unquote_field', s])
        calls.append(['split_lines', s])
    want = node_calls(os.path.join(JS, 'csv_utils.js'), calls)
    got = py_calls(mod, calls)
    for c, w, g in zip(calls, want, got):
        if ('ok' in w) != ('ok' in g) or ('ok' in w and w['ok'] != g['ok']):
            return 'lowered %s%r = %r but node gives %r' % (c[0], tuple(c[1:]), g, w)
    return None




def node_reader(cases, timeout=180):
    p = subprocess.run(['node', os.path.join(HERE, 'node_reader.js')], input=json.dumps({'cases': cases}), capture_output=True, text=True, timeout=timeout)
    if p.returncode != 0:
        raise lower.LowerError('node reader driver failed: ' + p.stderr[-400:])
    return json.loads(p.stdout)


def _norm_node(r):
    if 'ok' in r:
        return ('ok', r['ok'], sorted(r['warnings']))
    return ('io', r['msg']) if r['err'] == 'RbqlIOHandlingError' else ('raw', r['err'])


def _norm_py(r):
    return ('ok', r[1], sorted(r[2])) if r[0] == 'ok' else r


def validate_reader(seed=0, n=400):
    """Lowered reader (bulk and stream paths, TextDecoder / Buffer stubs) vs the real one in node, same direct-construction driver."""
    from vf.jslower import jsrt
    mods, _rep = build()
    m = _load('js_rbql_csv', mods['js_rbql_csv'])
    rnd = random.Random(seed + 1)
    pieces = [b'a', b'"', b',', b'\n', b'\r', b'#', b' ', b'\xc3\xa9', b'\xe2\x82\xac', b'\xf0\x9f\x98\x80', b'\xef\xbb\xbf', b'\xff', b'\xc3']
    cases = []
    for i in range(n):
        data = b''.join(rnd.choice(pieces) for _ in range(rnd.randint(0, 7)))
        if i % 5 == 0:
            data = b'\xef\xbb\xbf' + data
        enc = rnd.choice(['utf-8', 'utf-8', 'binary'])
        policy, delim = rnd.choice([('quoted', ','), ('quoted_rfc', ','), ('simple', ','), ('whitespace', ' '), ('monocolumn', '')])
        comment = rnd.choice([None, '#'])
        mode = rnd.choice(['bulk', 'stream', 'stream'])
        if mode == 'bulk':
            chunks = [data]
        else:
            cuts = sorted(rnd.sample(range(len(data) + 1), min(len(data) + 1, rnd.randint(0, 3))))
            chunks = [data[a:b] for a, b in zip([0] + cuts, cuts + [len(data)])]
        cases.append({'mode': mode, 'chunks': [list(c) for c in chunks], 'encoding': enc, 'delim': delim, 'policy': policy, 'comment_prefix': comment})
    want = node_reader(cases)
    for c, w in zip(cases, want):
        bufs = [jsrt.Buffer(list(x)) for x in c['chunks']]
        try:
            if c['mode'] == 'bulk':
                data = b''.join(bytes(x) for x in c['chunks'])
                it = m.CSVRecordIterator(None, '/dev/null', c['encoding'], c['delim'], c['policy'], False, c['comment_prefix'])
                it.started = True
                it.process_data_bulk(jsrt.Buffer(list(data)))
                got = _result_of(m, it)
            else:
                got = m.read_stream_chunks(bufs, c['encoding'], c['delim'], c['policy'], c['comment_prefix'])
        except jsrt.Unsupported:
            raise
        except Exception as e:  # noqa
            got = ('raw', type(e).__name__)
        if _norm_py(got) != _norm_node(w):
            return 'lowered reader disagrees with real node on %r: lowered %r, node %r' % (c, _norm_py(got), _norm_node(w))
    return None


class _InvalidUtf8Blob(object):
    """A blob whose utf-8 decoding is lossy (Buffer.compare with the re-encoded text differs)."""
    def __init__(self, m, text):
        self.text = text
        self.invalid = True
    def toString(self, encoding=None):
        return self.text


def _result_of(m, it):
    if it.current_exception is not None:
        e = it.current_exception
        return ('io', e.message) if isinstance(e, m.RbqlIOHandlingError) else ('raw', type(e).__name__)
    recs = []
    while True:
        r = it.produced_records_queue.dequeue()
        if r is None:
            break
        recs.append(r)
    return ('ok', recs, it.get_warnings())


def validate_all(seed=0):
    r = validate_csv_utils(seed)
    if r:
        return r
    return validate_reader(seed)


if __name__ == '__main__':
    print(validate_all())
