// usage: node --expose-internals dump_ast.js <file.js>   -> ESTree JSON on stdout (acorn bundled with node)
const acorn = require('internal/deps/acorn/acorn/dist/acorn');
const fs = require('fs');
const src = fs.readFileSync(process.argv[2], 'utf-8');
const ast = acorn.parse(src, {ecmaVersion: 2022, sourceType: 'script', locations: true});
process.stdout.write(JSON.stringify(ast));
