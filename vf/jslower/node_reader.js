// Drives the REAL rbql-js reader.  JSON on stdin: {cases: [{mode: 'bulk'|'stream'|'api', chunks: [[byte,...],...], encoding, delim, policy, comment_prefix}]}
//  bulk   : direct construction, process_data_bulk(Buffer)           (validates the lowering of the bulk path)
//  stream : direct construction, process_data_stream_chunk per chunk (validates the lowering of the stream path + TextDecoder stub)
//  api    : public async API over a stream.Readable emitting exactly those Buffers (used to replay counterexamples)
const rbql_csv = require((process.env.VF_REPO || '/repo') + '/rbql-js/rbql_csv.js');
const { Readable } = require('stream');
const chunks = [];
process.stdin.on('data', c => chunks.push(c));
process.stdin.on('end', async () => {
    const req = JSON.parse(Buffer.concat(chunks).toString('utf-8'));
    const out = [];
    for (const c of req.cases) {
        try {
            const bufs = c.chunks.map(b => Buffer.from(b));
            if (c.mode == 'api') {
                const stream = Readable.from(bufs, {objectMode: false});
                const it = new rbql_csv.CSVRecordIterator(stream, null, c.encoding, c.delim, c.policy, false, c.comment_prefix);
                const recs = await it.get_all_records();
                out.push({ok: recs, warnings: it.get_warnings()});
                continue;
            }
            let it;
            if (c.mode == 'bulk') {
                it = new rbql_csv.CSVRecordIterator(null, '/dev/null', c.encoding, c.delim, c.policy, false, c.comment_prefix);
                it.started = true;
                it.process_data_bulk(Buffer.concat(bufs));
            } else {
                it = new rbql_csv.CSVRecordIterator({}, null, c.encoding, c.delim, c.policy, false, c.comment_prefix);
                it.started = true;
                for (const b of bufs) it.process_data_stream_chunk(b);
                it.process_data_stream_end();
            }
            if (it.current_exception !== null) {
                out.push({err: it.current_exception.constructor.name, msg: String(it.current_exception.message)});
                continue;
            }
            const recs = [];
            while (true) { const r = it.produced_records_queue.dequeue(); if (r === null) break; recs.push(r); }
            out.push({ok: recs, warnings: it.get_warnings()});
        } catch (e) {
            out.push({err: e.constructor.name, msg: String(e.message)});
        }
    }
    process.stdout.write(JSON.stringify(out));
});
