"""python -m vf.driver <id> <quick|thorough>  |  python -m vf.driver <id> --replay <file>"""
import importlib
import os
import sys


def load_prop(prop_id):
    return importlib.import_module('vf.props.' + prop_id.lower())


def main(argv):
    if len(argv) < 2:
        print(__doc__)
        return 2
    prop_id = argv[0].upper()
    from vf import engine
    if argv[1] == '--replay':
        return engine.replay_file(argv[2])
    tier = argv[1]
    if tier not in ('quick', 'thorough'):
        tier = os.environ.get('VERIF_TIER', 'quick')
    seed = int(os.environ.get('VERIF_SEED', '0') or 0)
    import rbql
    from vf.paths import REPO
    if not os.path.realpath(rbql.__file__).startswith(REPO + '/'):
        print('HARNESS-ERROR rbql resolves to %s, not to /repo' % rbql.__file__)
        return 2
    try:
        mod = load_prop(prop_id)
        pre = getattr(mod, 'selfcheck', None)
        if pre is not None:
            msg = pre()
            if msg:
                print('HARNESS-ERROR property=%s oracle self-validation failed: %s' % (prop_id, msg))
                return 2
        obs = mod.obligations(tier, seed)
        if os.environ.get('VF_ONLY'):   # development only: run the obligations whose name matches
            import re
            obs = [o for o in obs if re.search(os.environ['VF_ONLY'], o.name)]
    except Exception as e:  # noqa
        import traceback
        traceback.print_exc()
        print('HARNESS-ERROR property=%s cannot generate obligations: %r' % (prop_id, e))
        return 2
    return engine.run_property(prop_id, tier, obs, mod.INFO, seed=seed)


if __name__ == '__main__':
    sys.exit(main(sys.argv[1:]))
