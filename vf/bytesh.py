"""Byte-level reading through the REAL decoding layer (rbql_csv.encode_input_stream -> io.TextIOWrapper), not stubbed.

Used by the byte-partition shards of C12 / C15: the byte CONTENT is concrete (io.TextIOWrapper is a C object, symbolic bytes would be
realised anyway), the PARTITION of the bytes into raw reads is chosen by the solver (cut positions are symbolic ints enumerated over
their finite range and made concrete per path), so every partition into <= 3 raw reads is covered.
"""
import io

from rbql import rbql_csv, rbql_engine


class RawPieces(io.RawIOBase):
    """Unbuffered binary stream that hands out prescribed pieces: a read never crosses a piece boundary and never returns more than asked."""

    def __init__(self, pieces):
        io.RawIOBase.__init__(self)
        self.pieces = [bytes(p) for p in pieces if len(p)]
        self.idx = 0
        self.off = 0

    def readable(self):
        return True

    def readinto(self, b):
        while self.idx < len(self.pieces) and self.off >= len(self.pieces[self.idx]):
            self.idx += 1
            self.off = 0
        if self.idx >= len(self.pieces):
            return 0
        p = self.pieces[self.idx]
        n = min(len(b), len(p) - self.off)
        b[:n] = p[self.off:self.off + n]
        self.off += n
        return n


def read_bytes(pieces, encoding, dlm, policy, has_header=False, comment_prefix=None, chunk_size=1024):
    """Real CSVRecordIterator over a raw byte stream delivering `pieces`, through the real encode_input_stream."""
    try:
        it = rbql_csv.CSVRecordIterator(RawPieces(pieces), encoding, dlm, policy, has_header, comment_prefix, chunk_size=chunk_size)
        recs = it.get_all_records()
        return ('ok', recs, it.get_header(), it.get_warnings())
    except rbql_engine.RbqlIOHandlingError as e:
        return ('io', e.args[0])


def cut(data, c1, c2):
    return [data[:c1], data[c1:c2], data[c2:]]
