"""One obligation = one process.  Runs CrossHair (z3) on a generated harness function and prints one JSON line.

usage: python -m vf.worker <harness.py> <func> <per_condition_timeout> [<twin func> <twin timeout>]
"""
import importlib.util
import json
import os
import sys
import time

os.environ['VF_SYMBOLIC'] = '1'


def load(path, modname='vf_harness'):
    spec = importlib.util.spec_from_file_location(modname, path)
    m = importlib.util.module_from_spec(spec)
    sys.modules[modname] = m
    spec.loader.exec_module(m)
    return m


def extract_call(message, fname):
    """AnalysisMessage text -> repr of the argument tuple, e.g. "false when calling obl('', 3) (which returns False)"."""
    key = 'when calling ' + fname + '('
    i = message.find(key)
    if i < 0:
        return None
    rest = message[i + len('when calling '):]
    j = rest.rfind(' (which returns')
    if j >= 0:
        rest = rest[:j]
    rest = rest.strip()
    env = {fname: (lambda *a, **k: (a, k)), 'nan': float('nan'), 'inf': float('inf'), '__builtins__': {}}
    try:
        a, k = eval(rest, env)
    except Exception as e:  # noqa
        return {'unparsed': rest, 'error': repr(e)}
    return {'args': repr(list(a)), 'kwargs': repr(k)}


def analyze(fn, timeout, counters):
    from crosshair.core_and_libs import analyze_function
    from crosshair.options import AnalysisOptionSet
    opts = AnalysisOptionSet(per_condition_timeout=float(timeout), report_all=True, per_path_timeout=max(5.0, float(timeout) / 4))
    results = []
    t0 = time.time()
    for checkable in analyze_function(fn, opts):
        for msg in checkable.analyze():
            results.append({'state': msg.state.name, 'message': msg.message, 'line': msg.line,
                            'call': extract_call(msg.message, fn.__name__)})
    return {'results': results, 'wall_s': round(time.time() - t0, 3)}


def main(argv):
    path, fname, timeout = argv[0], argv[1], float(argv[2])
    twin = argv[3] if len(argv) > 3 else None
    twin_timeout = float(argv[4]) if len(argv) > 4 else 20.0
    import z3
    counters = {'checks': 0, 'solver_s': 0.0, 'paths': 0}
    orig_check = z3.Solver.check

    def counting_check(self, *a):
        t = time.perf_counter()
        try:
            return orig_check(self, *a)
        finally:
            counters['checks'] += 1
            counters['solver_s'] += time.perf_counter() - t
    z3.Solver.check = counting_check
    import crosshair.statespace as ss
    orig_init = ss.StateSpace.__init__

    def counting_init(self, *a, **k):
        counters['paths'] += 1
        return orig_init(self, *a, **k)
    ss.StateSpace.__init__ = counting_init

    out = {'harness': path, 'func': fname}
    try:
        m = load(path)
        res = analyze(getattr(m, fname), timeout, counters)
        out['main'] = res
        out['main'].update({'paths': counters['paths'], 'smt_checks': counters['checks'], 'solver_s': round(counters['solver_s'], 3)})
        if twin:
            p0, c0, s0 = counters['paths'], counters['checks'], counters['solver_s']
            res = analyze(getattr(m, twin), twin_timeout, counters)
            res.update({'paths': counters['paths'] - p0, 'smt_checks': counters['checks'] - c0, 'solver_s': round(counters['solver_s'] - s0, 3)})
            out['twin'] = res
    except BaseException as e:  # noqa
        import traceback
        out['harness_error'] = ''.join(traceback.format_exception(type(e), e, e.__traceback__))[-3000:]
    sys.stdout.write('\nVFRESULT ' + json.dumps(out) + '\n')
    sys.stdout.flush()


if __name__ == '__main__':
    main(sys.argv[1:])
