"""Mechanical expansion of a leading-group back-reference in a regular expression (used for RBQL's string-literal scanner, whose
`\\1` CrossHair's regex model cannot encode).  (ALT1|ALT2|..)BODY-with-\\1  ->  (?:(?:ALT1)BODY[\\1:=ALT1]|(?:ALT2)BODY[\\1:=ALT2]|...)
with the same alternative order, hence the same leftmost / backtracking semantics.  The pattern is taken from the source at run time."""
import re as _real_re

BACKREF = '\\1'


def expand_backreference(pattern):
    if not pattern.startswith('('):
        return None
    depth = 0
    end = None
    i = 0
    while i < len(pattern):
        ch = pattern[i]
        if ch == '\\':
            i += 2
            continue
        if ch == '(':
            depth += 1
        elif ch == ')':
            depth -= 1
            if depth == 0:
                end = i
                break
        i += 1
    if end is None:
        return None
    alts = pattern[1:end].split('|')
    body = pattern[end + 1:]
    if BACKREF not in body or any(('(' in a or ')' in a) for a in alts):
        return None
    return '(?:' + '|'.join('(?:' + a + ')' + body.replace(BACKREF, '(?:' + a + ')') for a in alts) + ')'


class LoweringRe(object):
    """Stand-in for the `re` module inside rbql_engine: finditer expands the back-reference; everything else is the real module."""

    def __init__(self):
        self.lowered = 0
        self.failed = 0

    def finditer(self, pattern, string, flags=0):
        if isinstance(pattern, str) and BACKREF in pattern:
            ex = expand_backreference(pattern)
            if ex is None:
                self.failed += 1
            else:
                self.lowered += 1
                pattern = ex
        return _real_re.finditer(pattern, string, flags)

    def __getattr__(self, name):
        return getattr(_real_re, name)
