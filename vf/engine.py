"""Obligation runner: CrossHair workers in parallel, verdict mapping, replay, known findings, evidence."""
import ast
import json
import os
import re
import subprocess
import sys
import time
from concurrent.futures import ThreadPoolExecutor, as_completed

VERIF = os.path.dirname(os.path.dirname(os.path.abspath(__file__)))
PY = sys.executable
NCPU = int(os.environ.get('VERIF_JOBS', '0')) or max(1, (os.cpu_count() or 2))


class Obl(object):
    """One proof obligation: a generated harness module and the function in it that CrossHair must confirm."""

    def __init__(self, name, src, fn='obl', twin='twin', timeout=60, twin_timeout=20, expect='hold', finding=None, meta=None, engine='E1', replayer=None):
        self.name = name
        self.src = src
        self.fn = fn
        self.twin = twin
        self.timeout = timeout
        self.twin_timeout = twin_timeout
        self.expect = expect      # 'hold' | 'hunt' (bug-hunting only: not expected to confirm) | 'known' (witness of a recorded finding)
        self.finding = finding
        self.meta = meta or {}
        self.engine = engine
        self.replayer = replayer   # for engine='script': (module, function, leading args) that re-runs concrete arguments against the real code
        self.path = None


def _env():
    e = dict(os.environ)
    from vf.paths import REPO
    e['PYTHONPATH'] = REPO + '/rbql-py:' + VERIF
    e['PYTHONDONTWRITEBYTECODE'] = '1'
    e['PYTHONWARNINGS'] = 'ignore'
    e['PYTHONHASHSEED'] = '0'
    return e


def _tagged(out, tag):
    for line in out.splitlines():
        if line.startswith(tag + ' '):
            return json.loads(line[len(tag) + 1:])
    return None


def run_replay(path, fn, args_repr, trace=False, limit=120):
    cmd = [PY, '-m', 'vf.replay', path, fn, args_repr] + (['--trace'] if trace else [])
    env = _env()
    env.pop('VF_SYMBOLIC', None)
    try:
        p = subprocess.run(cmd, env=env, capture_output=True, text=True, timeout=limit, cwd=VERIF)
    except subprocess.TimeoutExpired:
        return {'outcome': 'hang', 'detail': 'replay exceeded %d s wall clock' % limit}
    r = _tagged(p.stdout, 'VFREPLAY')
    if r is None:
        return {'outcome': 'harness_error', 'detail': (p.stdout + p.stderr)[-1500:]}
    return r


def run_one(ob):
    t0 = time.time()
    if ob.engine == 'script':
        cmd = [PY, ob.path]   # self-contained solver script printing a VFRESULT line (direct z3 / cvc5 encodings)
    else:
        cmd = [PY, '-m', 'vf.worker', ob.path, ob.fn, str(ob.timeout)]
        if ob.twin:
            cmd += [ob.twin, str(ob.twin_timeout)]
    hard = ob.timeout * 1.6 + (ob.twin_timeout * 1.6 if ob.twin else 0) + 60
    rec = {'name': ob.name, 'expect': ob.expect, 'finding': ob.finding, 'meta': ob.meta, 'timeout_s': ob.timeout}
    try:
        p = subprocess.run(cmd, env=_env(), capture_output=True, text=True, timeout=hard, cwd=VERIF)
        res = _tagged(p.stdout, 'VFRESULT')
        if res is None:
            rec['verdict'] = 'harness_error'
            rec['detail'] = 'worker produced no result: ' + (p.stdout + p.stderr)[-1500:]
            rec['wall_s'] = round(time.time() - t0, 2)
            return rec
    except subprocess.TimeoutExpired:
        rec['verdict'] = 'inconclusive'
        rec['detail'] = 'worker exceeded hard wall limit %.0f s' % hard
        rec['wall_s'] = round(time.time() - t0, 2)
        return rec
    if 'harness_error' in res:
        rec['verdict'] = 'harness_error'
        rec['detail'] = res['harness_error']
        rec['wall_s'] = round(time.time() - t0, 2)
        return rec
    main = res['main']
    rec.update({'paths': main.get('paths', 0), 'smt_checks': main.get('smt_checks', 0), 'solver_s': main.get('solver_s', 0.0), 'crosshair_s': main.get('wall_s', 0.0)})
    states = [r['state'] for r in main['results']]
    rec['states'] = states
    fails = [r for r in main['results'] if r['state'] in ('POST_FAIL', 'EXEC_ERR', 'POST_ERR', 'PRE_INVALID', 'SYNTAX_ERR', 'IMPORT_ERR')]
    if fails:
        f = fails[0]
        rec['cx_message'] = f['message'][:600]
        call = f.get('call')
        if f['state'] in ('SYNTAX_ERR', 'IMPORT_ERR', 'PRE_INVALID') or not call or 'args' not in call:
            rec['verdict'] = 'harness_error'
            rec['detail'] = 'no replayable counterexample: ' + f['state'] + ' ' + f['message'][:500]
        else:
            rp = f['replay'] if 'replay' in f else run_replay(ob.path, ob.fn, call['args'])
            rec['counterexample'] = call['args']
            rec['replay'] = rp
            if rp['outcome'] in ('false', 'raise', 'hang'):
                rec['verdict'] = 'refuted'
            elif rp['outcome'] == 'true':
                rec['verdict'] = 'nonrepro'
            else:
                rec['verdict'] = 'harness_error'
                rec['detail'] = rp.get('detail', '')
    elif states and all(s == 'CONFIRMED' for s in states):
        rec['verdict'] = 'discharged'
    elif not states:
        rec['verdict'] = 'harness_error'
        rec['detail'] = 'CrossHair found no condition on %s' % ob.fn
    else:
        rec['verdict'] = 'inconclusive'
        rec['detail'] = '; '.join('%s: %s' % (r['state'], r['message'][:120]) for r in main['results'])
    # vacuity twin
    tw = res.get('twin')
    if tw is not None:
        rec['paths'] += tw.get('paths', 0)
        rec['smt_checks'] += tw.get('smt_checks', 0)
        rec['solver_s'] = round(rec['solver_s'] + tw.get('solver_s', 0.0), 3)
        tfails = [r for r in tw['results'] if r['state'] == 'POST_FAIL' and r.get('call') and 'args' in r['call']]
        if tfails:
            wargs = tfails[0]['call']['args']
            rp = run_replay(ob.path, ob.fn, wargs, trace=True)
            rec['witness'] = wargs
            rec['witness_outcome'] = rp['outcome']
            rec['funcs'] = rp.get('funcs', [])
            if rp['outcome'] == 'hang':
                rec['verdict'] = 'refuted'
                rec['counterexample'] = wargs
                rec['replay'] = rp
            elif rp['outcome'] in ('false', 'raise') and rec['verdict'] in ('discharged',):
                # CrossHair confirmed but the concrete witness fails: engine model and CPython disagree
                rec['verdict'] = 'harness_error'
                rec['detail'] = 'witness fails concretely although CrossHair confirmed: ' + json.dumps(rp)[:800]
            elif rp['outcome'] in ('false', 'raise') and rec['verdict'] == 'inconclusive':
                rec['verdict'] = 'refuted'
                rec['counterexample'] = wargs
                rec['replay'] = rp
        else:
            rec['witness'] = None
            tstates = [r['state'] for r in tw['results']]
            rec['twin_states'] = tstates
            if rec['verdict'] == 'discharged':
                if tstates and all(s in ('CONFIRMED', 'PRE_UNSAT') for s in tstates):
                    rec['verdict'] = 'harness_error'
                    rec['detail'] = 'vacuous: reachability twin cannot reach the end of the harness (%s)' % tstates
                else:
                    rec['twin_note'] = 'twin inconclusive: ' + '; '.join('%s %s' % (r['state'], r['message'][:100]) for r in tw['results'])
    rec['wall_s'] = round(time.time() - t0, 2)
    return rec


def load_known():
    p = os.path.join(VERIF, 'known_findings.json')
    if not os.path.exists(p):
        return {}
    with open(p) as f:
        d = json.load(f)
    return {x['id']: x for x in d.get('findings', []) if x.get('status') == 'open'}


def run_property(prop_id, tier, obligations, info, seed=0, budget=None):
    """Runs all obligations, prints VIOLATION / KNOWN-FINDING lines, writes evidence; returns the exit code."""
    t0 = time.time()
    bdir = os.path.join(VERIF, 'build', prop_id, tier)
    os.makedirs(bdir, exist_ok=True)
    for f in os.listdir(bdir):
        if f.endswith('.py'):
            os.unlink(os.path.join(bdir, f))
    names = set()
    for i, ob in enumerate(obligations):
        assert ob.name not in names, ob.name
        names.add(ob.name)
        ob.path = os.path.join(bdir, 'h%03d_%s.py' % (i, re.sub(r'[^A-Za-z0-9_]+', '_', ob.name)[:60]))
        with open(ob.path, 'w') as f:
            f.write(ob.src)
    if budget is None:
        budget = float(os.environ.get('VERIF_BUDGET', '0')) or (420 if tier == 'quick' else 3000)
    known = load_known()
    records = []
    skipped = []
    order = sorted(obligations, key=lambda o: -o.timeout)
    deadline = t0 + budget

    def guarded(ob):
        if time.time() > deadline:
            return {'name': ob.name, 'verdict': 'skipped', 'expect': ob.expect, 'finding': ob.finding, 'meta': ob.meta, 'detail': 'tier wall budget exhausted'}
        return run_one(ob)
    with ThreadPoolExecutor(max_workers=NCPU) as ex:
        futs = {ex.submit(guarded, ob): ob for ob in order}
        for fu in as_completed(futs):
            ob = futs[fu]
            try:
                rec = fu.result()
            except Exception as e:  # noqa
                rec = {'name': ob.name, 'verdict': 'harness_error', 'detail': repr(e), 'expect': ob.expect, 'finding': ob.finding, 'meta': ob.meta}
            rec['harness'] = os.path.relpath(ob.path, VERIF)
            rec['fn'] = ob.fn
            records.append(rec)
            if os.environ.get('VF_VERBOSE'):
                sys.stderr.write('[%s] %-60s %-12s %6.1fs %s\n' % (prop_id, rec['name'][:60], rec['verdict'], rec.get('wall_s', 0), (rec.get('detail') or '')[:100].replace('\n', ' ')))
    records.sort(key=lambda r: r['name'])

    os.makedirs(os.path.join(VERIF, 'replays'), exist_ok=True)
    violations = []
    known_lines = []
    errors = []
    for rec in records:
        v = rec['verdict']
        if v == 'refuted':
            fid = rec.get('finding')
            if rec['expect'] == 'known' and fid in known:
                known_lines.append('KNOWN-FINDING: property=%s %s [%s] witness %s' % (prop_id, known[fid]['what'], fid, rec.get('counterexample')))
                rec['verdict'] = 'known_finding'
                continue
            rp = os.path.join(VERIF, 'replays', '%s-%s.json' % (prop_id, re.sub(r'[^A-Za-z0-9_]+', '_', rec['name'])[:80]))
            with open(rp, 'w') as f:
                json.dump({'property': prop_id, 'obligation': rec['name'], 'tier': tier, 'fn': rec['fn'], 'args': rec.get('counterexample'),
                           'meta': rec.get('meta'), 'replay': rec.get('replay'), 'cx_message': rec.get('cx_message')}, f, indent=1)
            rec['replay_file'] = rp
            violations.append((rec, rp))
        elif v in ('harness_error', 'nonrepro'):
            errors.append(rec)
        elif v == 'discharged' and rec['expect'] == 'known':
            sys.stdout.write('NOTE: known finding %s no longer reproduces (obligation %s confirmed); exit status unaffected\n' % (rec.get('finding'), rec['name']))
    for line in known_lines:
        print(line)
    for rec, rp in violations:
        print('VIOLATION property=%s replay=%s' % (prop_id, rp))
        print('  obligation %s args %s' % (rec['name'], rec.get('counterexample')))
        r = rec.get('replay') or {}
        if 'got' in r:
            print('  got      %s\n  expected %s' % (r['got'][:400], r['expected'][:400]))
        elif r.get('detail'):
            print('  ' + r['detail'][-400:].replace('\n', '\n  '))
    if len(errors) > 6:
        print('HARNESS-ERROR property=%s: %d obligations with harness errors, first 6 shown' % (prop_id, len(errors)))
    for rec in errors[:6]:
        print('HARNESS-ERROR property=%s obligation=%s %s: %s' % (prop_id, rec['name'], rec['verdict'], (rec.get('detail') or rec.get('cx_message') or '')[-400:].replace('\n', ' | ')))

    write_evidence(prop_id, tier, seed, records, info, time.time() - t0, len(violations))
    counts = {}
    for rec in records:
        counts[rec['verdict']] = counts.get(rec['verdict'], 0) + 1
    print('%s %s: %d obligations %s in %.0f s' % (prop_id, tier, len(records), json.dumps(counts, sort_keys=True), time.time() - t0))
    if violations:
        return 1
    if errors:
        return 2
    return 0


def write_evidence(prop_id, tier, seed, records, info, wall, nviol):
    hold = [r for r in records if r.get('expect') == 'hold']
    discharged = [r for r in records if r['verdict'] == 'discharged']
    inconcl = [r for r in records if r['verdict'] in ('inconclusive', 'skipped')]
    refuted = [r for r in records if r['verdict'] == 'refuted']
    knownf = [r for r in records if r['verdict'] == 'known_finding']
    funcs = set()
    for r in records:
        funcs.update(r.get('funcs') or [])
    traces = sum(1 for r in records if r.get('witness_outcome') in ('true', 'false', 'raise')) + sum(1 for r in records if r.get('replay'))
    samples = []
    for r in records[:]:
        if len(samples) >= 8:
            break
        samples.append({'obligation': r['name'], 'meta': r.get('meta'), 'verdict': r['verdict'], 'seconds': r.get('wall_s'), 'paths': r.get('paths'),
                        'smt_checks': r.get('smt_checks'), 'witness_args': r.get('witness'), 'harness': r.get('harness')})
    cov = {
        'states': max(1, sum(r.get('paths', 0) for r in records)),
        'transitions': max(1, sum(r.get('smt_checks', 0) for r in records)),
        'traces_validated_against_impl': traces,
        'samples': samples,
        'obligations': len(records),
        'discharged': len(discharged),
        'inconclusive': len(inconcl),
        'refuted': len(refuted),
        'known_findings_reproduced': len(knownf),
        'bug_hunt_only': len([r for r in records if r.get('expect') == 'hunt']),
        'solver_seconds': round(sum(r.get('solver_s', 0.0) for r in records), 2),
        'cpu_seconds': round(sum(r.get('wall_s', 0.0) for r in records), 1),
        'units': '"states" = symbolic paths explored by CrossHair (StateSpace instances) summed over obligations; "transitions" = z3 Solver.check() calls',
        'functions_encoded': sorted(funcs),
        'exhaustive': bool(hold) and all(r['verdict'] == 'discharged' for r in hold),
        'explanation': info.get('explanation', ''),
        'bounds': info.get('bounds', ''),
        'outside_bounds': info.get('outside', ''),
        'per_obligation': [{'name': r['name'], 'verdict': r['verdict'], 'expect': r.get('expect'), 's': r.get('wall_s'), 'paths': r.get('paths'),
                            'smt': r.get('smt_checks'), 'bounds': (r.get('meta') or {}).get('bounds'), 'detail': (r.get('detail') or '')[:200] if r['verdict'] not in ('discharged',) else None}
                           for r in records],
        'checker_cmd': './check %s %s' % (prop_id, tier),
        'trusted_base': info.get('trusted', []),
    }
    ev = {
        'property_id': prop_id,
        'tier': tier,
        'seed': int(seed),
        'level': 'model_checking',
        'coverage': cov,
        'assumptions': info.get('assumptions', []),
        'wall_s': round(wall, 1),
        'violations': nviol,
    }
    edir = os.path.join(VERIF, 'build', 'dev-evidence') if (os.environ.get('VF_ONLY') or os.environ.get('VF_REPO')) else os.path.join(VERIF, 'evidence')
    os.makedirs(edir, exist_ok=True)   # development runs (obligation filter / alternate tree) never touch the committed evidence
    with open(os.path.join(edir, prop_id + '.json'), 'w') as f:
        json.dump(ev, f, indent=1)


def replay_file(path):
    with open(path) as f:
        d = json.load(f)
    prop_id = d['property']
    # regenerate the harness for this obligation from the current property module
    from vf import driver
    mod = driver.load_prop(prop_id)
    obs = mod.obligations(d.get('tier', 'quick'), 0)
    obs = [o for o in obs if o.name == d['obligation']]
    if not obs and d.get('tier') != 'thorough':
        obs = [o for o in mod.obligations('thorough', 0) if o.name == d['obligation']]
    if not obs:
        print('HARNESS-ERROR replay: obligation %s not generated any more' % d['obligation'])
        return 2
    ob = obs[0]
    bdir = os.path.join(VERIF, 'build', prop_id, 'replay')
    os.makedirs(bdir, exist_ok=True)
    ob.path = os.path.join(bdir, 'replay.py')
    with open(ob.path, 'w') as f:
        f.write(ob.src)
    if ob.replayer is not None:
        import importlib
        mod_name, fn_name, lead = ob.replayer
        rp = getattr(importlib.import_module(mod_name), fn_name)(*(list(lead) + [ast.literal_eval(d['args'])]))
    else:
        rp = run_replay(ob.path, ob.fn, d['args'])
    print(json.dumps(rp, indent=1))
    if rp['outcome'] in ('false', 'raise', 'hang'):
        print('VIOLATION property=%s replay=%s' % (prop_id, path))
        return 1
    if rp['outcome'] == 'true':
        print('replay: obligation holds on these arguments (not reproduced on the current tree)')
        return 0
    return 2
