"""Validates the relational reference interpreter on the repository's own expected tables (test/rbql_unit_tests.json).

The scenarios are re-described structurally by hand (by test_name); inputs, expected output tables, headers and warnings are
read from the repository's JSON at run time.  Only the *expected* data are used -- never the implementation.
"""
import json

from vf.refmodel import rel
from vf.refmodel.rel import Item, Q, Join


def _i(n):
    return lambda e: int(e.a(n))


def _scenarios():
    a = lambda n: Item('a%d' % n, (lambda e: e.a(n)), name=('a', n - 1))  # noqa
    b = lambda n: Item('b%d' % n, (lambda e: e.b(n)), name=('b', n - 1))  # noqa
    NR = Item('NR', lambda e: e.NR, name=('var', 'NR'))
    aggs = lambda: [  # noqa
        Item('MIN(int(a2) * 10)', lambda e: int(e.a(2)) * 10, kind='agg', agg='MIN'), Item('MAX(a2)', lambda e: e.a(2), kind='agg', agg='MAX'),
        Item('COUNT(*)', lambda e: 1, kind='agg', agg='COUNT'), Item('COUNT(1)', lambda e: 1, kind='agg', agg='COUNT'),
        Item('COUNT(a1)', lambda e: e.a(1), kind='agg', agg='COUNT'), Item('SUM(a3)', lambda e: e.a(3), kind='agg', agg='SUM'),
        Item('AVG(a2)', lambda e: e.a(2), kind='agg', agg='AVG'), Item('VARIANCE(a2)', lambda e: e.a(2), kind='agg', agg='VARIANCE'),
        Item('MEDIAN(a4)', lambda e: e.a(4), kind='agg', agg='MEDIAN')]
    jw = ('...', lambda e: e.b(2) != 'alpha' and int(e.a(1)) > -100 and len(e.b(2)) > 1)
    jo = [('a2', lambda e: e.a(2)), ('int(a1)', lambda e: int(e.a(1)))]
    S = {}
    S['test1'] = Q(items=[NR, a(1), Item('len(a3)', lambda e: len(e.a(3)))], where=('', lambda e: int(e.a(1)) > 5))
    S['simple join'] = Q(items=[NR, Item('*', kind='star')], join=Join('INNER JOIN', [(1, 0)], ''), where=jw, order=jo)
    S['test7'] = Q(items=[b(1), b(2), a(1), Item('bNR', lambda e: e.bNR), Item('bNF', lambda e: len(e.rb))], join=Join('LEFT JOIN', [(1, 0)], ''),
                   where=('', lambda e: e.b(2) != 'wings'))
    S['update_left_join'] = Q(update=[('a3', 2, 'b2', lambda e: e.b(2))], join=Join('LEFT JOIN', [(1, 0)], ''), where=('', lambda e: e.b(2) != 'wings'))
    S['update_with_join_1'] = Q(update=[('a2', 1, '', lambda e: '{} ({})'.format(e.a(2), e.b(2)))], join=Join('INNER JOIN', [(1, 0)], ''), where=('', lambda e: e.b(2) != 'wings'))
    S['aggregate_funcs_without_group_by'] = Q(items=[a(3)] + aggs())
    S['aggregate_funcs_with_group_by'] = Q(items=[a(1), a(3)] + aggs(), group=[('a1', lambda e: e.a(1))])
    S['aggregate_funcs_with_group_by_and_where'] = None
    S['update_swap'] = Q(update=[('a1', 0, 'a2', lambda e: e.a(2)), ('a2', 1, 'a1', lambda e: e.a(1))])
    S['update_1'] = Q(update=[('a2', 1, '', lambda e: e.a(2) + ' beta'), ('a1', 0, '', lambda e: 100)], where=('', lambda e: int(e.a(1)) > 10))
    S['test_NU_variable'] = Q(update=[('a2', 1, '', lambda e: '{} {}'.format(e.a(2), e.NU)), ('a1', 0, '', lambda e: 100)], where=('', lambda e: int(e.a(1)) > 10))
    S['unnest_1'] = Q(items=[a(1), Item('', lambda e: e.a(2).split('|'), kind='unnest')])
    S['join on NR'] = Q(items=[a(1), b(2)], join=Join('INNER JOIN', [('NR', 'NR')], ''), where=('', lambda e: e.NR > 3 and e.bNR < 6))
    S['Select with column name alias and without input header - still generated output header'] = Q(
        items=[Item('NR', lambda e: e.NR, name=('var', 'NR'), alias='my_NR'), Item('a1', lambda e: e.a(1), name=('a', 0), alias='my_value'),
               Item('len(a3)', lambda e: len(e.a(3)), alias='my_lr_l'), a(3)], where=('', lambda e: int(e.a(1)) > 5))
    S['distinct_count'] = Q(items=[a(1)], distinct='count', where=('', lambda e: int(e.a(2)) > 10))
    S['distinct_count_order_asc_limit'] = Q(items=[a(1)], distinct='count', where=('', lambda e: int(e.a(2)) > 10), order=[('', lambda e: int(e.a(2)))], top=2, top_kw='LIMIT')
    S['except_1'] = Q(excpt=[1, 3], excpt_text='a2, a4', order=[('a1', lambda e: e.a(1))], desc=True, top=3)
    S['simple join - a-star, b-star'] = 'hdr-join'
    S['correct GROUP BY without aggregation function'] = Q(items=[a(1), a(2), Item('100', lambda e: 100)], group=[('a1', lambda e: e.a(1))])
    S['GROUP BY with ANY_VALUE'] = Q(items=[a(1), Item('ANY_VALUE(a2)', lambda e: e.a(2), kind='agg', agg='ANY_VALUE'), Item('100', lambda e: 100)], group=[('a1', lambda e: e.a(1))])
    S['single_column'] = Q(items=[a(1)], distinct='distinct')
    S['test5'] = Q(items=[a(2)])
    S['two key join simple'] = Q(items=[a(1), a(2), a(3), a(4), b(1)], join=Join('JOIN', [(0, 1), (1, 2)], ''), where=('', lambda e: e.b(1) != 'McDonalds' and e.a(3) != '1811'))
    S['three key join simple'] = Q(items=[Item('*', kind='star')], join=Join('JOIN', [(0, 0), (1, 1), (2, 2)], ''))
    S['array_agg_without_grouping'] = Q(items=[Item('', lambda e: e.a(1), kind='agg', agg='ARRAY_AGG')])
    S['single_column_join_table'] = Q(items=[a(1), a(2), a(3)], join=Join('LEFT OUTER JOIN', [(1, 0)], ''), where=('', lambda e: e.b(1) is not None))
    return S


def _close(x, y):
    if isinstance(x, float) or isinstance(y, float):
        try:
            return abs(x - y) <= 1e-9 * max(1.0, abs(x), abs(y))
        except TypeError:
            return False
    if isinstance(x, list) and isinstance(y, list):
        return len(x) == len(y) and all(_close(p, q) for p, q in zip(x, y))
    return x == y


def check():
    try:
        from vf.paths import REPO
        with open(REPO + '/test/rbql_unit_tests.json') as f:
            tests = json.load(f)
    except Exception as e:  # noqa
        return 'cannot read repository test vectors: %r' % e
    S = _scenarios()
    by_name = {t.get('test_name'): t for t in tests}
    n = 0
    for name, q in S.items():
        t = by_name.get(name)
        if t is None or q is None:
            continue
        if q == 'hdr-join':
            q = Q(items=[Item('aNR', lambda e: e.NR, name=('var', 'aNR')), Item('bNR', lambda e: e.bNR, name=('var', 'bNR')), Item('a.*', kind='astar'),
                         Item("'===='", lambda e: '===='), Item('b.*', kind='bstar')], join=Join('INNER JOIN', [(1, 0)], ''),
                  where=('', lambda e: e.b(2) != 'alpha' and int(e.a(1)) > -100 and len(e.b(2)) > 1), order=[('a2', lambda e: e.a(2)), ('', lambda e: int(e.a(1)))],
                  ha=t['input_column_names'], hb=t['join_column_names'])
        res = rel.run(q, t['input_table'], t.get('join_table'))
        if res[0] != 'ok':
            return 'reference fails on repository scenario %r: %r' % (name, res[:3])
        if not _close(res[1], t['expected_output_table']):
            return 'reference disagrees with repository scenario %r: %r vs expected %r' % (name, res[1][:4], t['expected_output_table'][:4])
        if 'expected_output_header' in t and res[2] != t['expected_output_header']:
            return 'reference header disagrees with repository scenario %r: %r vs %r' % (name, res[2], t['expected_output_header'])
        if 'expected_warnings' in t:
            has = any('Number of fields' in w for w in res[3])
            if ('inconsistent input records' in t['expected_warnings']) != has:
                return 'reference warning disagrees with repository scenario %r' % name
        n += 1
    if n < 20:
        return 'too few repository scenarios matched (%d)' % n
    return None
