"""Independent reference for RBQL's CSV dialect, written from the documentation (rbql_main.csv_epilog, README) and
the statements of C10/C11/C12 -- character scans only, no regular expressions, no code shared with /repo.

Written to be cheap under symbolic execution: one pass, slices instead of per-character accumulation where possible.
"""


def _parse_quoted_field(line, i, dlm):
    """Tries to read a quoted field starting at index i.  Returns (content, raw_end) or None.
    raw_end = index just after the field (pointing at the delimiter or == len(line))."""
    n = len(line)
    j = i
    if dlm != ' ':
        while j < n and line[j] == ' ':
            j += 1
    if j >= n or line[j] != '"':
        return None
    k = j + 1
    seg_start = k
    parts = []
    while True:
        q = line.find('"', k)
        if q < 0:
            return None  # never closed
        if q + 1 < n and line[q + 1] == '"':
            parts.append(line[seg_start:q + 1])  # keep one quote of the doubled pair
            k = q + 2
            seg_start = k
            continue
        parts.append(line[seg_start:q])
        e = q + 1
        if dlm != ' ':
            while e < n and line[e] == ' ':
                e += 1
        if e == n or line.startswith(dlm, e):
            return (''.join(parts), e)
        return None


def split_quoted(line, dlm, preserve=False):
    """-> (fields, warning).  The dialect of the `quoted` / `quoted_rfc` policies applied to one record text."""
    n = len(line)
    fields = []
    warning = False
    i = 0
    while True:
        q = _parse_quoted_field(line, i, dlm)
        if q is not None:
            content, e = q
            fields.append(line[i:e] if preserve else content)
        else:
            e = line.find(dlm, i)
            if e < 0:
                e = n
            f = line[i:e]
            if '"' in f:
                warning = True
            fields.append(f)
        if e >= n:
            break
        i = e + len(dlm)
    return (fields, warning)


def split_simple(line, dlm):
    fields = []
    i = 0
    while True:
        e = line.find(dlm, i)
        if e < 0:
            fields.append(line[i:])
            return fields
        fields.append(line[i:e])
        i = e + len(dlm)


def split_whitespace(line):
    """Fields are the maximal runs of non-space characters."""
    fields = []
    n = len(line)
    i = 0
    while i < n:
        if line[i] == ' ':
            i += 1
            continue
        e = line.find(' ', i)
        if e < 0:
            e = n
        fields.append(line[i:e])
        i = e
    return fields


def split_whitespace_preserving(line):
    """Quote/whitespace preserving variant: each field keeps its surrounding spaces except the single space that
    separates it from the next field, so that ' '.join(fields) == line whenever the line holds a non-space."""
    fields = []
    n = len(line)
    i = 0
    while i < n:
        j = i
        while j < n and line[j] == ' ':
            j += 1
        if j >= n:
            break  # trailing spaces belong to the previous field (already taken) or the line is blank
        e = j
        while e < n and line[e] != ' ':
            e += 1
        t = e
        while t < n and line[t] == ' ':
            t += 1
        fields.append((i, t))
        i = t
    res = []
    for idx, (a, b) in enumerate(fields):
        if idx + 1 < len(fields):
            res.append(line[a:b - 1])
        else:
            res.append(line[a:b])
    return res


def smart_split(line, dlm, policy, preserve=False):
    if policy == 'simple':
        return (split_simple(line, dlm), False)
    if policy == 'whitespace':
        return (split_whitespace_preserving(line) if preserve else split_whitespace(line), False)
    if policy == 'monocolumn':
        return ([line], False)
    return split_quoted(line, dlm, preserve)


# ------------------------------------------------------------------ writer side

def quote_field(f, dlm, rfc=False):
    if '"' in f:
        return '"' + f.replace('"', '""') + '"'
    if dlm in f or (rfc and ('\n' in f or '\r' in f)):
        return '"' + f + '"'
    return f


def write_table(rows, dlm, policy, line_separator='\n'):
    """Reference writer: text of the table (every record terminated by the line separator)."""
    out = []
    for r in rows:
        if policy == 'quoted':
            out.append(dlm.join([quote_field(f, dlm) for f in r]))
        elif policy == 'quoted_rfc':
            out.append(dlm.join([quote_field(f, dlm, True) for f in r]))
        elif policy == 'monocolumn':
            out.append(r[0])
        else:
            out.append(dlm.join(r))
        out.append(line_separator)
    return ''.join(out)


# ------------------------------------------------------------------ reader side

def split_lines(text):
    """Physical lines: terminated by LF, CR or CRLF; a final unterminated non-empty line counts."""
    lines = []
    n = len(text)
    i = 0
    start = 0
    while i < n:
        c = text[i]
        if c == '\n':
            lines.append(text[start:i])
            i += 1
            start = i
        elif c == '\r':
            lines.append(text[start:i])
            if i + 1 < n and text[i + 1] == '\n':
                i += 2
            else:
                i += 1
            start = i
        else:
            i += 1
    if start < n:
        lines.append(text[start:])
    return lines


def read_table(text, dlm, policy, comment_prefix=None, bom_encoding=None):
    """-> dict(records, warnings flags, error).  Reference reader over a whole text.

    bom: 'utf-8' -> a leading U+FEFF of the first line is dropped; 'latin-1' -> leading EF BB BF characters.
    quoted_rfc: a record whose text has an odd number of quotes continues on the following physical lines until a line
    with an odd number of quotes closes it (or the input ends); lines are joined by LF.
    Comment lines (starting with the prefix at the beginning of a record) are skipped.
    Returns records, bom flag, first defective physical line number (1-based) or None, error (None or ('io', NR, NL)).
    """
    lines = split_lines(text)
    bom = False
    if lines:
        if bom_encoding == 'utf-8' and lines[0][:1] == '﻿':
            lines[0] = lines[0][1:]
            bom = True
        elif bom_encoding == 'latin-1' and lines[0][:3] == '\xef\xbb\xbf':
            lines[0] = lines[0][3:]
            bom = True
    records = []
    first_defective = None
    error = None
    nl = 0
    nr = 0
    idx = 0
    while idx < len(lines):
        rec = lines[idx]
        idx += 1
        nl += 1
        is_comment = comment_prefix is not None and rec.startswith(comment_prefix)
        if policy == 'quoted_rfc' and not is_comment and rec.count('"') % 2 == 1:
            parts = [rec]
            while idx < len(lines):
                nxt = lines[idx]
                idx += 1
                nl += 1
                parts.append(nxt)
                if nxt.count('"') % 2 == 1:
                    break
            rec = '\n'.join(parts)
        if comment_prefix is not None and rec.startswith(comment_prefix):
            continue
        nr += 1
        fields, warn = smart_split(rec, dlm, policy)
        if warn and first_defective is None:
            first_defective = nl
            if policy == 'quoted_rfc':
                error = ('io', nr, nl)
                break
        records.append(fields)
    return {'records': records, 'bom': bom, 'first_defective': first_defective, 'error': error}


def fields_info_warning(records, first_nr=1):
    """(n1, r1, n2, r2) for the field-count warning, or None: first record of each of the first two distinct lengths."""
    seen = []
    for i, r in enumerate(records):
        n = len(r)
        if all(n != s[0] for s in seen):
            seen.append((n, i + first_nr))
            if len(seen) == 2:
                return (seen[0][0], seen[0][1], seen[1][0], seen[1][1])
    return None


def expected_read(text, dlm, policy, has_header=False, comment_prefix=None, encoding=None, table_name='input'):
    """What reading `text` must give: ('ok', records, header, warnings) | ('io', message) -- wording of the messages as documented by rbql_csv."""
    r = read_table(text, dlm, policy, comment_prefix, encoding)
    if r['error'] is not None:
        _k, nr, nl = r['error']
        return ('io', 'Inconsistent double quote escaping in %s table at record %d, line %d' % (table_name, nr, nl))
    recs = r['records']
    warnings = []
    if r['bom']:
        warnings.append('UTF-8 Byte Order Mark (BOM) was found and skipped in %s table' % table_name)
    if r['first_defective'] is not None:
        warnings.append('Inconsistent double quote escaping in %s table. E.g. at line %d' % (table_name, r['first_defective']))
    fi = fields_info_warning(recs)   # record numbers count the header line too (the reader numbers it 1)
    if fi is not None:
        warnings.append('Number of fields in "%s" table is not consistent: e.g. record %d -> %d fields, record %d -> %d fields' % (table_name, fi[1], fi[0], fi[3], fi[2]))
    header = None
    if has_header:
        header = recs[0] if recs else None
        recs = recs[1:]
    return ('ok', recs, header, warnings)
