"""Oracle self-validation on the repository's own *expected* vectors (never on the implementation's behaviour, so a
regression in /repo cannot turn into a harness error here)."""
import ast
import json
import os

from vf.refmodel import csvref

EMBEDDED_SPLIT = [
    ('hello,world', (['hello', 'world'], False)), ('hello,"world"', (['hello', 'world'], False)), ('"abc"', (['abc'], False)),
    ('abc', (['abc'], False)), ('', ([''], False)), (',', (['', ''], False)), (',,,', (['', '', '', ''], False)),
    (',"",,,', (['', '', '', '', ''], False)), ('"","",,,""', (['', '', '', '', ''], False)), ('"aaa,bbb",', (['aaa,bbb', ''], False)),
    ('"aaa,bbb",ccc', (['aaa,bbb', 'ccc'], False)), ('"aaa,bbb","ccc"', (['aaa,bbb', 'ccc'], False)),
    (' "aaa,bbb" ,  "ccc,ddd" ', (['aaa,bbb', 'ccc,ddd'], False)),
    ('"a"aa" a,bbb",ccc,ddd', (['"a"aa" a', 'bbb"', 'ccc', 'ddd'], True)), ('"aa, bb, cc",ccc",ddd', (['aa, bb, cc', 'ccc"', 'ddd'], True)),
    ('hello,world,"', (['hello', 'world', '"'], True)), (' aaa, " aaa, bbb " , ccc , ddd ', ([' aaa', ' aaa, bbb ', ' ccc ', ' ddd '], False)),
    (' aaa ,bbb ,ccc , ddd ', ([' aaa ', 'bbb ', 'ccc ', ' ddd '], False)),
]
EMBEDDED_WS = [
    ('hello world', (['hello', 'world'], False)), ('hello   world', (['hello', 'world'], False)), ('   hello   world   ', (['hello', 'world'], False)),
    ('     ', ([], False)), ('', ([], False)), ('   a   b  c d ', (['a', 'b', 'c', 'd'], False)),
    ('hello   world', (['hello  ', 'world'], True)),
]


def _from_repo_tests(func_name):
    """Literal tuples appended to `test_cases` inside test/test_csv_utils.py::<func_name>."""
    from vf.paths import REPO
    path = REPO + '/test/test_csv_utils.py'
    try:
        with open(path) as f:
            tree = ast.parse(f.read())
    except Exception:  # noqa
        return None
    for node in ast.walk(tree):
        if isinstance(node, ast.FunctionDef) and node.name == func_name:
            res = []
            for n in ast.walk(node):
                if isinstance(n, ast.Call) and isinstance(n.func, ast.Attribute) and n.func.attr == 'append' and len(n.args) == 1:
                    try:
                        res.append(ast.literal_eval(n.args[0]))
                    except Exception:  # noqa
                        pass
            return res
    return None


def check_split_reference():
    cases = _from_repo_tests('test_split') or EMBEDDED_SPLIT
    n = 0
    for tc in cases:
        if not (isinstance(tc, tuple) and len(tc) == 2 and isinstance(tc[0], str)):
            continue
        src, (fields, warn) = tc
        got = csvref.split_quoted(src, ',')
        if got != (list(fields), warn):
            return 'reference split_quoted(%r) = %r, repository test expects %r' % (src, got, (fields, warn))
        pres = csvref.split_quoted(src, ',', True)
        if ','.join(pres[0]) != src:
            return 'reference preserving split does not re-join on %r' % src
        n += 1
    if n < 10:
        return 'too few split vectors found (%d)' % n
    for tc in (_from_repo_tests('test_split_whitespaces') or EMBEDDED_WS):
        if not (isinstance(tc, tuple) and len(tc) == 2 and isinstance(tc[0], str)):
            continue
        src, (fields, preserve) = tc
        got = csvref.smart_split(src, ' ', 'whitespace', preserve)[0]
        if got != list(fields):
            return 'reference whitespace split(%r, preserve=%r) = %r, repository test expects %r' % (src, preserve, got, fields)
    return None
