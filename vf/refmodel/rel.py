"""Relational reference interpreter: the statements of C01-C05, C07 and the error/warning rules of C14, literally.

A query is a structural description (Q).  `render(q)` gives the RBQL text handed to the real engine, `run(q, T, B, ...)`
evaluates the reference semantics with Python closures.  No code is shared with /repo.

Outcome shapes (compared with vf.qh.run_rbql):
  ('ok', rows, header, warnings)
  ('err', error class name, message prefix, rows that a streaming query may already have written)
"""


class Env(object):
    """Evaluation environment of one (A record, B partner) pair."""

    def __init__(self, ra, nr, rb=None, bnr=None, ha=None, hb=None, nu=0):
        self.ra = ra
        self.NR = nr
        self.NF = len(ra)
        self.rb = rb
        self.bNR = bnr
        self.ha = ha
        self.hb = hb
        self.NU = nu

    def a(self, n):
        return self.ra[n - 1] if n <= len(self.ra) else None

    def b(self, n):
        if self.rb is None:
            return None
        return self.rb[n - 1] if n <= len(self.rb) else None

    def an(self, name):
        """a.name / a["name"]: the column at the header position of `name` (None when the record is shorter)."""
        if name not in self.ha:
            raise RefError('RbqlRuntimeError', 'No "%s" field at record %d' % (name, self.NR))   # dictionary-style variable of a column the header does not have
        i = self.ha.index(name)
        return self.ra[i] if i < len(self.ra) else None

    def bn(self, name):
        if self.rb is None:
            return None
        i = self.hb.index(name)
        return self.rb[i] if i < len(self.rb) else None


class Item(object):
    """One select-list item.
    kind: 'expr' | 'star' | 'astar' | 'bstar' | 'unnest' | 'agg'
    name: header rule -- ('a', idx0) | ('b', idx0) | ('name', s) | ('var', s) | None (=> colK);  alias overrides.
    agg : aggregate name for kind 'agg' (fn is then the argument)."""

    def __init__(self, text, fn=None, kind='expr', name=None, alias=None, agg=None, alias_kw='as'):
        self.text = text
        self.fn = fn
        self.kind = kind
        self.name = name
        self.alias = alias
        self.agg = agg
        self.alias_kw = alias_kw

    def render(self):
        if self.alias:
            return '%s %s %s' % (self.text, self.alias_kw, self.alias)
        return self.text


class Join(object):
    """kind: 'JOIN' | 'INNER JOIN' | 'LEFT JOIN' | 'LEFT OUTER JOIN' | 'STRICT LEFT JOIN'
    pairs: list of (aref, bref), each an int 0-based field index or 'NR'; on_text: the text after ON."""

    def __init__(self, kind, pairs, on_text, table='b'):
        self.kind = kind
        self.pairs = pairs
        self.on_text = on_text
        self.table = table


class Q(object):
    def __init__(self, items=None, where=None, join=None, order=None, desc=False, order_suffix=None, distinct=None, top=None, top_kw='TOP',
                 group=None, update=None, excpt=None, excpt_text=None, ha=None, hb=None, update_set=True, modifier=None):
        self.items = items          # list of Item (SELECT)
        self.where = where          # (text, fn) | None
        self.join = join            # Join | None
        self.order = order          # list of (text, fn) | None
        self.desc = desc
        self.order_suffix = order_suffix  # None | 'ASC' | 'DESC' (text only; desc gives the meaning)
        self.distinct = distinct    # None | 'distinct' | 'count'
        self.top = top
        self.top_kw = top_kw        # 'TOP' | 'LIMIT'
        self.group = group          # list of (text, fn) | None
        self.update = update        # list of (target text, idx0, rhs text, rhs fn) | None
        self.excpt = excpt          # list of idx0 (SELECT * EXCEPT ...) | None
        self.excpt_text = excpt_text
        self.ha = ha                # input header (list of names) | None
        self.hb = hb
        self.update_set = update_set
        self.modifier = modifier

    def is_agg(self):
        return self.group is not None or (self.items is not None and any(it.kind == 'agg' for it in self.items))


def render(q):
    parts = []
    if q.update is not None:
        parts.append('UPDATE ' + ('SET ' if q.update_set else '') + ', '.join('%s = %s' % (t, r) for t, _i, r, _f in q.update))
    else:
        s = 'SELECT '
        if q.top is not None and q.top_kw == 'TOP':
            s += 'TOP %d ' % q.top
        if q.distinct == 'distinct':
            s += 'DISTINCT '
        elif q.distinct == 'count':
            s += 'DISTINCT COUNT '
        if q.excpt is not None:
            s += '* EXCEPT ' + q.excpt_text
        else:
            s += ', '.join(it.render() for it in q.items)
        parts.append(s)
    if q.join is not None:
        parts.append('%s %s ON %s' % (q.join.kind, q.join.table, q.join.on_text))
    if q.where is not None:
        parts.append('WHERE ' + q.where[0])
    if q.group is not None:
        parts.append('GROUP BY ' + ', '.join(t for t, _f in q.group))
    if q.order is not None:
        parts.append('ORDER BY ' + ', '.join(t for t, _f in q.order) + ((' ' + q.order_suffix) if q.order_suffix else ''))
    if q.top is not None and q.top_kw == 'LIMIT':
        parts.append('LIMIT %d' % q.top)
    return ' '.join(parts)


# ------------------------------------------------------------------ errors

class RefError(Exception):
    def __init__(self, cls, prefix):
        Exception.__init__(self, cls, prefix)
        self.cls = cls
        self.prefix = prefix


def runtime_at(nr):
    return RefError('RbqlRuntimeError', 'At record %d, Details: ' % nr)


# ------------------------------------------------------------------ join

def _akey(join, ra, nr):
    key = []
    for aref, _b in join.pairs:
        if aref == 'NR':
            key.append(nr)
        else:
            if aref >= len(ra):
                raise RefError('RbqlRuntimeError', 'No "a%d" field at record %d' % (aref + 1, nr))
            key.append(ra[aref])
    return key


def _bkeys(join, B):
    """Key of every B record; a B record too short for a key field fails the whole query (before any A record is read)."""
    keys = []
    for bnr, rb in enumerate(B, 1):
        key = []
        for _a, bref in join.pairs:
            if bref == 'NR':
                key.append(bnr)
            else:
                if bref >= len(rb):
                    raise RefError('RbqlRuntimeError', 'No field with index %d at record %d in "B" table' % (bref + 1, bnr))
                key.append(rb[bref])
        keys.append(key)
    return keys


def partners(join, bkeys, B, ra, nr):
    """The (bnr, rb) partners of A record ra, by definition; LEFT adds one all-None partner of the widest B width."""
    key = _akey(join, ra, nr)
    res = []
    for i, rb in enumerate(B):
        if bkeys[i] == key:
            res.append((i + 1, rb))
    if join.kind in ('LEFT JOIN', 'LEFT OUTER JOIN') and not res:
        w = 0
        for rb in B:
            if len(rb) > w:
                w = len(rb)
        res.append((None, [None] * w))
    if join.kind == 'STRICT LEFT JOIN' and len(res) != 1:
        raise RefError('RbqlRuntimeError', 'At record %d, Details: In "STRICT LEFT JOIN" each key in A must have exactly one match in B. Bad A key: "' % nr)
    return res


# ------------------------------------------------------------------ aggregates

def _num(v):
    if isinstance(v, str):
        try:
            return int(v)
        except ValueError:
            return float(v)
    return v


def _fnum(v):
    if isinstance(v, str):
        return float(v)
    return v


def aggregate(name, vals):
    """Mathematical value of the aggregate over the group's argument values, in input order."""
    name = name.upper()
    if name == 'COUNT':
        return len(vals)
    if name == 'ARRAY_AGG':
        return list(vals)
    if name == 'ANY_VALUE':
        return vals[0]
    if name == 'MIN':
        nums = [_num(v) for v in vals]
        m = nums[0]
        for x in nums[1:]:
            if x < m:
                m = x
        return m
    if name == 'MAX':
        nums = [_num(v) for v in vals]
        m = nums[0]
        for x in nums[1:]:
            if x > m:
                m = x
        return m
    if name == 'SUM':
        s = 0
        for v in vals:
            s = s + _num(v)
        return s
    if name == 'AVG':
        s = 0
        for v in vals:
            s = s + _fnum(v)
        return float(s) / len(vals)
    if name == 'VARIANCE':
        s = 0
        s2 = 0
        for v in vals:
            x = _fnum(v)
            s = s + x
            s2 = s2 + x * x
        n = len(vals)
        return float(s2) / n - (float(s) / n) * (float(s) / n)
    if name == 'MEDIAN':
        nums = sorted([_num(v) for v in vals])
        n = len(nums)
        if n % 2 == 1:
            return nums[n // 2]
        lo = nums[n // 2 - 1]
        hi = nums[n // 2]
        return lo if lo == hi else (lo + hi) / 2.0
    raise AssertionError(name)


# ------------------------------------------------------------------ header

def output_header(q):
    """Expected output header (None = no header), or raises RefError for the star+alias-without-header rule."""
    if q.update is not None:
        return q.ha
    ha, hb = q.ha, q.hb
    if q.excpt is not None:
        if ha is None:
            return None
        return [n for i, n in enumerate(ha) if i not in q.excpt]
    has_alias = any(it.alias for it in q.items)
    has_star = any(it.kind in ('star', 'astar', 'bstar') for it in q.items)
    if ha is None:
        if has_star and has_alias:
            raise RefError('RbqlParsingError', 'Using both * (star) and AS alias in the same query is not allowed')
        if not has_alias:
            return None
        ha, hb = [], []
    if hb is None:
        hb = []
    # DISTINCT COUNT prefixes every record with its multiplicity: that column occupies output position 1 (its own name is not
    # documented -> wildcard), so colK numbering of the following columns counts it (K = position in the output record).
    out = [None] if q.distinct == 'count' else []
    for it in q.items:
        if it.kind == 'star':
            out += list(ha) + list(hb)
        elif it.kind == 'astar':
            out += list(ha)
        elif it.kind == 'bstar':
            out += list(hb)
        elif it.alias:
            out.append(it.alias)
        elif it.name is not None and it.name[0] in ('name', 'var'):
            out.append(it.name[1])
        elif it.name is not None and it.name[0] == 'a' and it.name[1] < len(ha):
            out.append(ha[it.name[1]])
        elif it.name is not None and it.name[0] == 'b' and it.name[1] < len(hb):
            out.append(hb[it.name[1]])
        else:
            out.append('col%d' % (len(out) + 1))
    return out


# ------------------------------------------------------------------ warnings

def field_count_warning(records):
    """Warning text for the first records of the first two distinct lengths, or None."""
    seen = []
    for i, r in enumerate(records):
        n = len(r)
        known = False
        for s in seen:
            if s[0] == n:
                known = True
        if not known:
            seen.append((n, i + 1))
            if len(seen) == 2:
                break
    if len(seen) < 2:
        return None
    return 'Number of fields in "input" table is not consistent: e.g. record %d -> %d fields, record %d -> %d fields' % (seen[0][1], seen[0][0], seen[1][1], seen[1][0])


# ------------------------------------------------------------------ evaluation

def _eval_items(q, env):
    """-> list of output rows produced by this pair (UNNEST may give several or none)."""
    row = []
    unnest_pos = None
    unnest_vals = None
    for it in q.items:
        if it.kind == 'star':
            row += list(env.ra) + (list(env.rb) if env.rb is not None else [])
        elif it.kind == 'astar':
            row += list(env.ra)
        elif it.kind == 'bstar':
            row += list(env.rb)
        elif it.kind == 'unnest':
            unnest_vals = it.fn(env)
            unnest_pos = len(row)
            row.append(None)
        else:
            row.append(it.fn(env))
    if unnest_pos is None:
        return [row]
    res = []
    for v in unnest_vals:
        r = list(row)
        r[unnest_pos] = v
        res.append(r)
    return res


def run(q, T, B=None):
    """Reference result of query q on input table T and join table B."""
    try:
        return _run(q, T, B)
    except RefError as e:
        return ('err', e.cls, e.prefix, [])
    except Exception as e:  # noqa -- Python-level failure outside per-record evaluation (unorderable sort / group keys)
        return ('raw', type(e).__name__)


def _run(q, T, B):
    if q.group is not None and (q.order is not None or q.update is not None):
        raise RefError('RbqlParsingError', '"ORDER BY", "UPDATE" and "DISTINCT" keywords are not allowed in aggregate queries')
    if q.order is not None and q.update is not None:
        raise RefError('RbqlParsingError', '"ORDER BY" is not allowed in "UPDATE" queries')
    bkeys = _bkeys(q.join, B) if q.join is not None else None
    header = output_header(q)
    if q.update is not None:
        return _run_update(q, T, B, bkeys, header)
    agg = q.is_agg()
    buffered = agg or q.order is not None or q.distinct == 'count'
    entries = []        # (sort key, row) in production order
    groups = []         # list of [key, [per-item value lists]] in first-appearance order
    consumed = len(T)   # records pulled from the input (for the warning and the consumption clause)
    attempts_at_top = 0
    seen = []
    stop = False
    streamed = []
    for nr, ra in enumerate(T, 1):
        try:
            prs = partners(q.join, bkeys, B, ra, nr) if q.join is not None else [(None, None)]
            for bnr, rb in prs:
                env = Env(ra, nr, rb, bnr, q.ha, q.hb)
                if q.where is not None and not q.where[1](env):
                    continue
                if q.excpt is not None:
                    rows = [[v for i, v in enumerate(ra) if i not in q.excpt]]
                elif agg:
                    vals = []
                    for it in q.items:
                        vals.append(it.fn(env))
                    key = tuple(f(env) for _t, f in q.group) if q.group is not None else None
                    if q.order is not None or q.distinct is not None:
                        raise RefError('RbqlParsingError', '"ORDER BY", "UPDATE" and "DISTINCT" keywords are not allowed in aggregate queries')
                    slot = None
                    for g in groups:
                        if g[0] == key:
                            slot = g
                    if slot is None:
                        slot = [key, [[] for _ in q.items]]
                        groups.append(slot)
                    for i, it in enumerate(q.items):
                        if it.kind == 'agg':
                            if it.agg.upper() in ('MIN', 'MAX', 'SUM', 'AVG', 'VARIANCE', 'MEDIAN'):
                                _num(vals[i])  # conversion failures are reported at the offending record
                            slot[1][i].append(vals[i])
                        else:
                            if slot[1][i] and slot[1][i][0] != vals[i]:
                                raise RefError('RbqlRuntimeError', 'At record %d, Details: Invalid aggregate expression: non-constant values in output column %d' % (nr, i + 1))
                            slot[1][i].append(vals[i])
                    continue
                else:
                    rows = _eval_items(q, env)
                skey = tuple(f(env) for _t, f in q.order) if q.order is not None else None
                for row in rows:
                    entries.append((skey, row))
                    if not buffered:
                        # streaming chain: [Uniq ->] [Top ->] sink
                        if q.distinct == 'distinct':
                            if row in seen:
                                continue
                            seen.append(row)
                        if q.top is not None and attempts_at_top >= q.top:
                            stop = True
                            break
                        attempts_at_top += 1
                        streamed.append(row)
                if stop:
                    break
        except RefError as e:
            return ('err', e.cls, e.prefix, streamed if not buffered else [])
        except Exception:
            err = runtime_at(nr)
            return ('err', err.cls, err.prefix, streamed if not buffered else [])
        if stop:
            consumed = nr
            break
    calls = consumed if stop else len(T) + 1   # get_record() calls: the stopping record, or all records plus the final None
    warnings = []
    w = field_count_warning(T[:consumed])
    if w is not None:
        warnings.append(w)
    if q.join is not None:
        wb = field_count_warning(B)
        if wb is not None:
            warnings.append(wb)
    if not buffered:
        return ('ok', streamed, header, warnings, calls)
    if agg:
        keys = sorted([g[0] for g in groups]) if q.group is not None else [g[0] for g in groups]
        rows = []
        for k in keys:
            g = [x for x in groups if x[0] == k][0]
            row = []
            for i, it in enumerate(q.items):
                if it.kind == 'agg':
                    row.append(aggregate(it.agg, g[1][i]))
                else:
                    row.append(g[1][i][0])
            rows.append(row)
    else:
        rows_keyed = entries
        if q.order is not None:
            rows_keyed = sorted(entries, key=lambda e: e[0])   # Python's sort is stable: ties stay in input order
            if q.desc:
                rows_keyed = list(reversed(rows_keyed))
        rows = [r for _k, r in rows_keyed]
        if q.distinct == 'distinct':
            ded = []
            for r in rows:
                if r not in ded:
                    ded.append(r)
            rows = ded
        elif q.distinct == 'count':
            ded = []
            cnt = []
            for r in rows:
                if r in ded:
                    cnt[ded.index(r)] += 1
                else:
                    ded.append(r)
                    cnt.append(1)
            rows = [[cnt[i]] + ded[i] for i in range(len(ded))]
    if q.top is not None:
        rows = rows[:q.top]
    return ('ok', rows, header, warnings, calls)


def _run_update(q, T, B, bkeys, header):
    out = []
    nu = 0
    for nr, ra in enumerate(T, 1):
        new = list(ra)
        try:
            if q.join is not None:
                prs = partners(q.join, bkeys, B, ra, nr)
                if len(prs) > 1:
                    raise RefError('RbqlRuntimeError', 'At record %d, Details: More than one record in UPDATE query matched a key from the input table in the join table' % nr)
                if len(prs) == 1:
                    env = Env(ra, nr, prs[0][1], prs[0][0], q.ha, q.hb, nu)
                    hit = q.where is None or q.where[1](env)
                else:
                    hit = False
            else:
                env = Env(ra, nr, None, None, q.ha, q.hb, nu)
                hit = q.where is None or q.where[1](env)
            if hit:
                nu += 1
                env.NU = nu
                for _t, idx, _rt, rfn in q.update:
                    v = rfn(env)      # evaluated against the ORIGINAL record
                    if idx >= len(new):
                        raise RefError('RbqlRuntimeError', 'No "a%d" field at record %d' % (idx + 1, nr))
                    new[idx] = v
        except RefError as e:
            return ('err', e.cls, e.prefix, out)
        except Exception:
            err = runtime_at(nr)
            return ('err', err.cls, err.prefix, out)
        out.append(new)
    warnings = []
    w = field_count_warning(T)
    if w is not None:
        warnings.append(w)
    if q.join is not None:
        wb = field_count_warning(B)
        if wb is not None:
            warnings.append(wb)
    return ('ok', out, header, warnings, len(T) + 1)
