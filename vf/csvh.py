"""Runtime helpers for the CSV-level harnesses (C10, C12, C14, C15)."""
from rbql import rbql_csv, rbql_engine

from vf import stubs

# io.TextIOWrapper is C: the text level is what is modelled; `encoding` still reaches remove_utf8_bom.
rbql_csv.encode_input_stream = lambda stream, encoding: stream
rbql_csv.encode_output_stream = lambda stream, encoding: stream


def read_all(pieces, encoding, dlm, policy, has_header=False, comment_prefix=None, chunk_size=1024, table_name='input'):
    """Real CSVRecordIterator over a stub stream that delivers `pieces`."""
    try:
        it = rbql_csv.CSVRecordIterator(stubs.PieceIn(pieces), encoding, dlm, policy, has_header, comment_prefix, table_name=table_name, chunk_size=chunk_size)
        recs = it.get_all_records()
        return ('ok', recs, it.get_header(), it.get_warnings())
    except rbql_engine.RbqlIOHandlingError as e:
        return ('io', e.args[0])


def write_all(rows, dlm, policy, line_separator='\n', header=None):
    """Real CSVWriter onto a stub stream.  -> ('ok', text, warnings) | ('io', message)"""
    out = stubs.StubOut()
    try:
        w = rbql_csv.CSVWriter(out, False, None, dlm, policy, line_separator)
        if header is not None:
            w.set_header(header)
        for r in rows:
            w.write(list(r))
        w.finish()
        return ('ok', out.text(), w.get_warnings())
    except rbql_engine.RbqlIOHandlingError as e:
        return ('io', e.args[0])
