"""Direct SMT encoding (DESIGN 1.3) of the float-valued aggregate finalisers, regenerated from /repo's source AST on every run.

AvgAggregator.get_final / VarianceAggregator.get_final are read from rbql_engine.py with `ast`, interpreted symbolically
over z3 (accumulator fields = Int variables, float() = to_real, arithmetic over the reals), and the negated documented
formula is handed to z3 (and, as a cross-check, to the cvc5 binary).  unsat = the finaliser is the documented formula for every
accumulator state (over the reals: IEEE rounding is outside the claim); sat = concrete accumulator state, replayed on the
real class with a 1e-9 relative tolerance before anything is reported.
"""
import ast
import json
import os
import subprocess
import sys
import tempfile
import time

from vf.paths import REPO
ENGINE_SRC = REPO + '/rbql-py/rbql/rbql_engine.py'


class Unsupported(Exception):
    pass


def _find_method(tree, cls, meth):
    for node in tree.body:
        if isinstance(node, ast.ClassDef) and node.name == cls:
            for f in node.body:
                if isinstance(f, ast.FunctionDef) and f.name == meth:
                    return f
    raise Unsupported('no %s.%s in source' % (cls, meth))


def encode_finaliser(cls, fields):
    """-> (z3 expression of the returned value, dict of z3 Int variables by accumulator position)."""
    import z3
    with open(ENGINE_SRC) as f:
        tree = ast.parse(f.read())
    fn = _find_method(tree, cls, 'get_final')
    acc = [z3.Int(n) for n in fields]
    env = {}

    def is_state_lookup(node):
        # self.stats[key]
        return (isinstance(node, ast.Subscript) and isinstance(node.value, ast.Attribute) and isinstance(node.value.value, ast.Name)
                and node.value.value.id == 'self')

    def ev(node):
        if isinstance(node, ast.Name):
            if node.id not in env:
                raise Unsupported('name ' + node.id)
            return env[node.id]
        if isinstance(node, ast.Constant) and isinstance(node.value, (int, float)) and not isinstance(node.value, bool):
            return z3.RealVal(repr(node.value)) if isinstance(node.value, float) else z3.IntVal(node.value)
        if isinstance(node, ast.Call) and isinstance(node.func, ast.Name) and node.func.id == 'float' and len(node.args) == 1 and not node.keywords:
            v = ev(node.args[0])
            return z3.ToReal(v) if v.sort() == z3.IntSort() else v
        if isinstance(node, ast.BinOp):
            l, r = ev(node.left), ev(node.right)
            if isinstance(node.op, ast.Pow):
                if not (isinstance(node.right, ast.Constant) and node.right.value in (2, 2.0)):
                    raise Unsupported('power other than 2')
                return l * l
            if isinstance(node.op, ast.Div):
                l = z3.ToReal(l) if l.sort() == z3.IntSort() else l
                r = z3.ToReal(r) if r.sort() == z3.IntSort() else r
                return l / r
            if l.sort() != r.sort():
                l = z3.ToReal(l) if l.sort() == z3.IntSort() else l
                r = z3.ToReal(r) if r.sort() == z3.IntSort() else r
            if isinstance(node.op, ast.Add):
                return l + r
            if isinstance(node.op, ast.Sub):
                return l - r
            if isinstance(node.op, ast.Mult):
                return l * r
            raise Unsupported('operator ' + type(node.op).__name__)
        if isinstance(node, ast.UnaryOp) and isinstance(node.op, ast.USub):
            return -ev(node.operand)
        raise Unsupported(ast.dump(node)[:80])

    for st in fn.body:
        if isinstance(st, ast.Assign) and len(st.targets) == 1 and is_state_lookup(st.value):
            tgt = st.targets[0]
            if isinstance(tgt, ast.Tuple) and all(isinstance(e, ast.Name) for e in tgt.elts) and len(tgt.elts) == len(acc):
                for e, v in zip(tgt.elts, acc):
                    env[e.id] = v
                continue
            raise Unsupported('state unpacking of unexpected arity')
        if isinstance(st, ast.Assign) and len(st.targets) == 1 and isinstance(st.targets[0], ast.Name):
            env[st.targets[0].id] = ev(st.value)
            continue
        if isinstance(st, ast.Return):
            return ev(st.value), acc, ast.get_source_segment(open(ENGINE_SRC).read(), fn)
        if isinstance(st, ast.Expr) and isinstance(st.value, ast.Constant):
            continue
        raise Unsupported('statement ' + type(st).__name__)
    raise Unsupported('no return')


def decide(cls):
    """Runs the query; prints a VFRESULT line in the worker's format."""
    import z3
    t0 = time.perf_counter()
    out = {'harness': __file__, 'func': cls + '.get_final'}
    res = {'results': [], 'paths': 1, 'smt_checks': 0, 'solver_s': 0.0}
    try:
        if cls == 'AvgAggregator':
            ret, acc, src = encode_finaliser(cls, ['s', 'n'])
            s, n = acc
            spec = z3.ToReal(s) / z3.ToReal(n)
            pre = [n >= 1]
        else:
            ret, acc, src = encode_finaliser(cls, ['s', 'q', 'n'])
            s, q, n = acc
            spec = z3.ToReal(q) / z3.ToReal(n) - (z3.ToReal(s) / z3.ToReal(n)) * (z3.ToReal(s) / z3.ToReal(n))
            pre = [n >= 1, q >= 0]
        ret = z3.ToReal(ret) if ret.sort() == z3.IntSort() else ret
        sol = z3.Solver()
        sol.set('timeout', 60000)
        for p in pre:
            sol.add(p)
        sol.add(ret != spec)
        smt2 = sol.to_smt2()
        ts = time.perf_counter()
        r = sol.check()
        res['smt_checks'] += 1
        res['solver_s'] += time.perf_counter() - ts
        verdict = str(r)
        # second opinion from the cvc5 binary (inconclusive answers are ignored; a contradiction is a harness error)
        other = None
        try:
            with tempfile.NamedTemporaryFile('w', suffix='.smt2', delete=False) as f:
                f.write('(set-logic ALL)\n' + smt2.replace('(check-sat)', '') + '\n(check-sat)\n')
                tmp = f.name
            ts = time.perf_counter()
            p = subprocess.run(['cvc5', '--tlimit=30000', tmp], capture_output=True, text=True, timeout=60)
            res['solver_s'] += time.perf_counter() - ts
            res['smt_checks'] += 1
            os.unlink(tmp)
            o = p.stdout.strip().split('\n')[0] if p.stdout.strip() else ''
            if o in ('sat', 'unsat') and '(error' not in p.stdout + p.stderr:
                other = o
        except Exception:  # noqa
            other = None
        res['second_solver'] = other
        if other is not None and verdict in ('sat', 'unsat') and other != verdict:
            out['harness_error'] = 'z3 says %s, cvc5 says %s on the same query' % (verdict, other)
        elif verdict == 'unsat':
            res['results'].append({'state': 'CONFIRMED', 'message': 'unsat: finaliser equals the documented formula for every accumulator state (reals)', 'line': 0, 'call': None})
        elif verdict == 'sat':
            m = sol.model()
            vals = [m.eval(v, model_completion=True).as_long() for v in acc]
            rp = replay(cls, vals)
            res['results'].append({'state': 'POST_FAIL', 'message': 'sat: accumulator state %r' % (vals,), 'line': 0, 'call': {'args': repr(vals)}, 'replay': rp})
        else:
            res['results'].append({'state': 'CANNOT_CONFIRM', 'message': 'solver answered %s' % verdict, 'line': 0, 'call': None})
        res['source'] = src
    except Unsupported as e:
        res['results'].append({'state': 'CANNOT_CONFIRM', 'message': 'finaliser source outside the encodable subset: %s' % e, 'line': 0, 'call': None})
    res['wall_s'] = round(time.perf_counter() - t0, 3)
    res['solver_s'] = round(res['solver_s'], 3)
    out['main'] = res
    sys.stdout.write('\nVFRESULT ' + json.dumps(out) + '\n')


def replay(cls, vals):
    """Concrete replay on the real class: exact rational formula vs get_final(), 1e-9 relative tolerance."""
    from fractions import Fraction
    from rbql import rbql_engine
    ag = getattr(rbql_engine, cls)()
    if cls == 'AvgAggregator':
        s, n = vals
        ag.stats['k'] = (s, n)
        exact = Fraction(s, n)
    else:
        s, q, n = vals
        ag.stats['k'] = (s, q, n)
        exact = Fraction(q, n) - Fraction(s, n) ** 2
    try:
        got = ag.get_final('k')
    except Exception as e:  # noqa
        return {'outcome': 'raise', 'detail': repr(e)}
    ok = abs(Fraction(got) - exact) <= Fraction(1, 10 ** 9) * max(1, abs(exact))
    return {'outcome': 'true' if ok else 'false', 'got': repr(got), 'expected': str(float(exact))}


def finaliser_obligations(quick):
    from vf.engine import Obl
    obs = []
    for cls in ('AvgAggregator', 'VarianceAggregator'):
        src = 'from vf import astsmt\nastsmt.decide(%r)\n' % cls
        o = Obl('finaliser_formula[%s]' % cls, src, fn='get_final', twin=None, timeout=120, engine='script', replayer=('vf.astsmt', 'replay', [cls]),
                meta={'function': 'rbql_engine.%s.get_final (AST -> z3 Int/Real)' % cls, 'bounds': 'every integer accumulator state with count >= 1; real arithmetic (IEEE rounding outside)'})
        obs.append(o)
    return obs


if __name__ == '__main__':
    decide(sys.argv[1])
