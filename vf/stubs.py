"""Stubs and substitutions shared by all harnesses (DESIGN section 4).

Nothing here edits /repo: every substitution rebinds a module-level name of the module under test.
`install()` is called by every generated harness at import time.  Substitutions that exist only to
keep CrossHair symbolic (equality-based containers) are applied only when VF_SYMBOLIC=1 (set by
vf.worker); a plain replay runs the repository's code with its real containers.
"""
import os
import sys

import rbql
from rbql import rbql_engine, rbql_csv, csv_utils

from vf.paths import REPO
if not os.path.realpath(rbql.__file__).startswith(REPO + '/'):
    raise ImportError('vf: rbql imported from %s, not from /repo (PYTHONPATH must start with /repo/rbql-py)' % rbql.__file__)

SYMBOLIC = os.environ.get('VF_SYMBOLIC') == '1'

_installed = False


def install():
    global _installed
    if _installed:
        return
    _installed = True
    if SYMBOLIC:
        from crosshair.libimpl.collectionslib import PureDefaultDict

        def _pure_defaultdict(factory=None):
            return PureDefaultDict(factory, dict())
        rbql_engine.defaultdict = _pure_defaultdict
        rbql_engine.OrderedDict = dict


# ---------------------------------------------------------------- streams

class PieceIn(object):
    """Text input stream that delivers prescribed pieces: a read(n) returns at most n characters and never
    crosses a piece boundary; '' only at end of input.  Counts reads."""

    def __init__(self, pieces):
        self.pieces = [p for p in pieces]
        self.idx = 0
        self.off = 0
        self.reads = 0
        self.closed = False

    def read(self, n=-1):
        self.reads += 1
        while self.idx < len(self.pieces) and self.off >= len(self.pieces[self.idx]):
            self.idx += 1
            self.off = 0
        if self.idx >= len(self.pieces):
            return ''
        p = self.pieces[self.idx]
        if n is None or n < 0:
            res = p[self.off:]
            self.off = len(p)
            return res
        res = p[self.off:self.off + n]
        self.off += len(res)
        return res

    def close(self):
        self.closed = True


class DecodeFailIn(PieceIn):
    """PieceIn whose k-th read (0-based) and all later ones raise UnicodeDecodeError."""

    def __init__(self, pieces, fail_at):
        PieceIn.__init__(self, pieces)
        self.fail_at = fail_at
        self.reads_after_fault = 0

    def read(self, n=-1):
        if self.reads >= self.fail_at:
            if self.reads > self.fail_at:
                self.reads_after_fault += 1
            self.reads += 1
            raise UnicodeDecodeError('utf-8', b'\xff', 0, 1, 'invalid start byte')
        return PieceIn.read(self, n)


class StubOut(object):
    """Text output stream collecting what is written."""

    def __init__(self):
        self.parts = []
        self.closed = False
        self.flushes = 0

    def write(self, s):
        self.parts.append(s)

    def flush(self):
        self.flushes += 1

    def close(self):
        self.closed = True

    def text(self):
        return ''.join(self.parts)


class PipeOut(StubOut):
    """Output stream whose k-th write call (0-based) and all later ones raise BrokenPipeError."""

    def __init__(self, fail_at):
        StubOut.__init__(self)
        self.fail_at = fail_at
        self.calls = 0
        self.calls_after_fault = 0

    def write(self, s):
        if self.calls >= self.fail_at:
            if self.calls > self.fail_at:
                self.calls_after_fault += 1
            self.calls += 1
            raise BrokenPipeError(32, 'Broken pipe')
        self.calls += 1
        self.parts.append(s)

    def flush(self):
        self.flushes += 1
        if self.calls > self.fail_at:
            raise BrokenPipeError(32, 'Broken pipe')

    def close(self):
        # closing flushes: a buffered stream whose pipe broke still holds the unwritten data and fails again
        self.closed = True
        if self.calls > self.fail_at:
            raise BrokenPipeError(32, 'Broken pipe')


def pure_print(*args, **kwargs):
    """print() replacement: CrossHair swallows the builtin."""
    f = kwargs.get('file', None)
    if f is None:
        f = sys.stdout
    sep = kwargs.get('sep', ' ')
    end = kwargs.get('end', '\n')
    f.write(sep.join([a if isinstance(a, str) else str(a) for a in args]) + end)


# ---------------------------------------------------------------- writers / iterators written against the public interfaces

class RecWriter(rbql_engine.RBQLOutputWriter):
    """User-supplied writer that records the protocol; refuses (returns False) from its m-th write on (m=None: never)."""

    def __init__(self, refuse_at=None):
        self.events = []
        self.rows = []
        self.header = None
        self.refuse_at = refuse_at
        self.n_write = 0

    def set_header(self, header):
        self.events.append('H')
        self.header = header

    def write(self, fields):
        k = self.n_write
        self.n_write += 1
        if self.refuse_at is not None and k >= self.refuse_at:
            self.events.append('w-')
            return False
        self.events.append('w+')
        self.rows.append(fields)
        return True

    def finish(self):
        self.events.append('F')

    def get_warnings(self):
        return []


class CountingIterator(rbql_engine.RBQLInputIterator):
    """User-supplied iterator over a list that counts get_record calls (variables aN / a[N] only)."""

    def __init__(self, table, hook=None):
        self.table = table
        self.pos = 0
        self.calls = 0
        self.hook = hook

    def get_variables_map(self, query_text):
        m = dict()
        rbql_engine.parse_basic_variables(query_text, 'a', m)
        rbql_engine.parse_array_variables(query_text, 'a', m)
        return m

    def get_record(self):
        self.calls += 1
        if self.hook is not None:
            self.hook(self.calls)
        if self.pos >= len(self.table):
            return None
        r = self.table[self.pos]
        self.pos += 1
        return r


class CyclicIterator(CountingIterator):
    """Unbounded input: repeats the rows of a (non-empty) table forever, as fresh lists."""

    def get_record(self):
        self.calls += 1
        if self.calls > 10000:
            raise RuntimeError('vf: query did not stop on unbounded input after 10000 records')
        r = self.table[self.pos % len(self.table)]
        self.pos += 1
        return list(r)
