"""Plain-interpreter replay of a harness function on concrete arguments (no CrossHair, real containers, real re).

usage: python -m vf.replay <harness.py> <func> <repr of arg list> [--trace]
Prints one line `VFREPLAY <json>`: outcome = true | false | raise, the got/expected pair when the harness exposes
`<func>_pair`, and with --trace the rbql functions entered.
"""
import ast
import importlib.util
import json
import sys

from vf.paths import REPO


def load(path, modname='vf_harness'):
    spec = importlib.util.spec_from_file_location(modname, path)
    m = importlib.util.module_from_spec(spec)
    sys.modules[modname] = m
    spec.loader.exec_module(m)
    return m


def main(argv):
    path, fname, args_repr = argv[0], argv[1], argv[2]
    trace = '--trace' in argv[3:]
    args = ast.literal_eval(args_repr)
    out = {'func': fname, 'args': args_repr}
    funcs = set()

    def prof(frame, event, arg):
        if event == 'call':
            fn = frame.f_code.co_filename
            if '/rbql' in fn and fn.startswith(REPO + '/'):
                funcs.add(fn.split('/')[-1] + ':' + frame.f_code.co_name)
            elif fn == '<main loop>':
                funcs.add('<generated main loop>:' + frame.f_code.co_name)
    try:
        m = load(path)
        fn = getattr(m, fname)
        pair = getattr(m, fname + '_pair', None)
        if trace:
            sys.setprofile(prof)
        try:
            r = fn(*args)
        finally:
            sys.setprofile(None)
        out['outcome'] = 'true' if r else 'false'
        node_check = getattr(m, 'node_check', None)
        if node_check is not None and not r:
            # E2 obligations: the counterexample must also show in REAL node (the lowered code only located it)
            ok, detail = node_check(*args)
            out['node'] = detail
            if not ok:
                out['outcome'] = 'harness_error'
                out['detail'] = 'counterexample of the lowered code does not reproduce in real node: ' + str(detail)[:600]
        if pair is not None and not r:
            try:
                g, e = pair(*args)
                out['got'] = repr(g)[:2000]
                out['expected'] = repr(e)[:2000]
            except Exception as ex:  # noqa
                out['pair_error'] = repr(ex)
    except Exception as e:  # noqa
        import traceback
        out['outcome'] = 'raise'
        out['detail'] = ''.join(traceback.format_exception(type(e), e, e.__traceback__))[-2000:]
    if trace:
        out['funcs'] = sorted(funcs)
    sys.stdout.write('\nVFREPLAY ' + json.dumps(out) + '\n')


if __name__ == '__main__':
    main(sys.argv[1:])
