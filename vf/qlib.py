"""Vocabulary of query fragments: RBQL text paired with its reference meaning (a closure over rel.Env)."""
from vf.refmodel.rel import Item, Join, Q  # noqa


def fa(n):
    return Item('a%d' % n, lambda e: e.a(n), name=('a', n - 1))


def fb(n):
    return Item('b%d' % n, lambda e: e.b(n), name=('b', n - 1))


def arr(n):
    return Item('a[%d]' % n, lambda e: e.a(n), name=('a', n - 1))


def arrb(n):
    return Item('b[%d]' % n, lambda e: e.b(n), name=('b', n - 1))


def attr(name, table='a'):
    if table == 'a':
        return Item('a.%s' % name, lambda e: e.an(name), name=('name', name))
    return Item('b.%s' % name, lambda e: e.bn(name), name=('name', name))


def sub(name, quote='"', table='a', lit=None):
    """a["name"] -- `lit` is the Python string literal text for the name (defaults to plain quoting)."""
    t = lit if lit is not None else quote + name + quote
    if table == 'a':
        return Item('a[%s]' % t, lambda e: e.an(name), name=('name', name))
    return Item('b[%s]' % t, lambda e: e.bn(name), name=('name', name))


STAR = Item('*', kind='star')
ASTAR = Item('a.*', kind='astar')
BSTAR = Item('b.*', kind='bstar')
NR = Item('NR', lambda e: e.NR, name=('var', 'NR'))
NF = Item('NF', lambda e: e.NF, name=('var', 'NF'))
BNR = Item('bNR', lambda e: e.bNR, name=('var', 'bNR'))
CONCAT12 = Item('a1 + a2', lambda e: e.a(1) + e.a(2))
CONCAT1X = Item("a1 + 'x'", lambda e: e.a(1) + 'x')
LEN1 = Item('len(a1)', lambda e: len(e.a(1)))
NR2 = Item('NR * 2', lambda e: e.NR * 2)
NRNF = Item('NR + NF', lambda e: e.NR + e.NF)
LITS = Item("'x,y'", lambda e: 'x,y')
LITD = Item('"p q"', lambda e: 'p q')
LIT7 = Item('7', lambda e: 7)
UNNEST_SPLIT = Item("UNNEST(a1.split(';'))", lambda e: e.a(1).split(';'), kind='unnest')
UNNEST_TAIL = Item("unnest(a1.split(';')[1:])", lambda e: e.a(1).split(';')[1:], kind='unnest')
UNNEST_PAIR = Item('Unnest([a1, a2])', lambda e: [e.a(1), e.a(2)], kind='unnest')
UNNEST_NF = Item('UNNEST(list(range(NF)))', lambda e: list(range(e.NF)), kind='unnest')
UNNEST_B = Item('unnest([b2, b2])', lambda e: [e.b(2), e.b(2)], kind='unnest')


def alias(item, name, kw='as'):
    return Item(item.text, item.fn, item.kind, item.name, alias=name, agg=item.agg, alias_kw=kw)


def agg(name, argtext, argfn, spelled=None):
    return Item('%s(%s)' % (spelled or name, argtext), argfn, kind='agg', agg=name)


W_NEX = ("a1 != 'x'", lambda e: e.a(1) != 'x')
W_NF1 = ('NF > 1', lambda e: e.NF > 1)
W_ODD = ('NR % 2 == 1', lambda e: e.NR % 2 == 1)
W_A2 = ('a2 is not None', lambda e: e.a(2) is not None)
W_LT = ('a1 < a2', lambda e: e.a(1) < e.a(2))
W_GE1 = ('a1 >= 1', lambda e: e.a(1) >= 1)
W_B2 = ("b2 != 'x'", lambda e: e.b(2) != 'x')


def join(kind='JOIN', pairs=((0, 0),), on=None):
    """pairs: ((a idx0|'NR', b idx0|'NR'), ...)."""
    def ref(x, t):
        if x == 'NR':
            return 'NR' if t == 'a' else 'bNR'
        return '%s%d' % (t, x + 1)
    text = on if on is not None else ' and '.join('%s == %s' % (ref(a, 'a'), ref(b, 'b')) for a, b in pairs)
    return Join(kind, list(pairs), text)
