"""Location of the repository under test.  Always /repo for the registered checks; VF_REPO may point a development run (tools/seed.py
evaluating a seeded change in a scratch worktree) at another checkout so that /repo itself stays untouched while long runs use it."""
import os

REPO = os.path.realpath(os.environ.get('VF_REPO', '/repo'))
