"""C06 -- No query ever modifies its sources (claimed clauses: Python lists; sqlite table identifiers).

(a) lists: for the query families of C01-C05 (plus failing queries) over a symbolic table, the input and join lists are
    deep-equal to their pre-query snapshots after the query AND after every output record has been overwritten and extended in
    place (decides "output records never alias input rows" without relying on `is`).
(b) sqlite identifier: rbql_sqlite.SqliteRecordIterator / SqliteDbRegistry with a recording fake connection and a symbolic
    table name: the only SQL text ever executed is `SELECT * FROM <name>;`, and only when every character of the name is an
    ASCII letter, digit or underscore; otherwise an IO-handling error and no SQL at all.
Not claimed (C extensions / OS, cannot be made symbolic): pandas dataframes, the sqlite database file, CSV files on disk, rbql-js arrays.
"""
from vf import qh
from vf.engine import Obl
from vf.gen import harness, indent
from vf.props import c01, c02, c03, c04, c05
from vf.qlib import *  # noqa

INFO = {
    'explanation': 'List clause: each obligation re-runs a C01-C05 family member (or a failing query) on a symbolic table and additionally asserts source == snapshot '
                   'after mutating every produced record in place. Identifier clause: for EVERY Unicode table name (fixed length per shard, no line feed) the fake '
                   'connection has recorded exactly [] + IO error, or exactly ["SELECT * FROM <name>;"] when the name is made of [A-Za-z0-9_] only.',
    'bounds': 'tables as in C01-C05 quick shapes; table names of length 0..4 (quick) / 0..5 (thorough), any Unicode except LF (cleanup_query cannot produce one; '
              're `$` also matches before a final LF -- stated, outside)'
        '; odd sources: 3-row tables whose rows are tuples, or lists holding a list-valued cell, under 24 query shapes (row identity, row types and deep values compared)',
    'outside': 'pandas dataframes, sqlite files, CSV files on disk, rbql-js arrays (C extensions / OS / no JS engine): not claimed',
    'assumptions': ['a fake DB-API connection stands for sqlite3 (only cursor()/execute()/description/fetchone() are used by the adapter)'],
    'trusted': ['crosshair-tool 0.0.110', 'z3', 'CPython 3.12.1'],
}

CASES = {}

# failing queries (runtime error mid-table, parse error) must leave the sources intact as well
CASES['fail[div]'] = Q(items=[STAR, Item('10 // a1', lambda e: 10 // e.a(1))])
CASES['fail[update-missing]'] = Q(update=[('a1', 0, 'a2', lambda e: e.a(2)), ('a3', 2, "'z'", lambda e: 'z')])
CASES['fail[update-div]'] = Q(update=[('a2', 1, '7', lambda e: 7), ('a1', 0, '10 // a1', lambda e: 10 // e.a(1))])
CASES['fail[strict]'] = Q(items=[STAR], join=Join('STRICT LEFT JOIN', [(0, 0)], 'a1 == b1'))
CASES['fail[order-none]'] = Q(items=[ASTAR], order=[('a2', lambda e: e.a(2))])

SQL_FAKE = '''
import sqlite3
from rbql import rbql_sqlite

class FakeCursor(object):
    def __init__(self, conn):
        self.conn = conn
        self.description = [('c1',), ('c2',)]
        self.rows = []
    def execute(self, sql, *args):
        self.conn.sqls.append(sql)
        self.rows = [('1', 'x'), ('2', 'y')]
    def fetchone(self):
        return self.rows.pop(0) if self.rows else None
    def fetchall(self):
        r, self.rows = self.rows, []
        return r

class FakeConn(object):
    def __init__(self):
        self.sqls = []
    def cursor(self):
        return FakeCursor(self)

ALLOWED = 'abcdefghijklmnopqrstuvwxyzABCDEFGHIJKLMNOPQRSTUVWXYZ0123456789_'
'''


def _ident_obl(L, via, timeout):
    body = indent('''
conn = FakeConn()
try:
    if VIA == 'iterator':
        rbql_sqlite.SqliteRecordIterator(conn, name)
    else:
        rbql_sqlite.SqliteDbRegistry(conn).get_iterator_by_table_id(name, 'b')
    status = 'ok'
except rbql_engine.RbqlIOHandlingError:
    status = 'io'
good = True
for c in name:
    if c not in ALLOWED:
        good = False
exp = (['SELECT * FROM ' + name + ';'], 'ok') if good else ([], 'io')
return ((conn.sqls, status), exp)
''')
    src = harness('VIA = %r\n' % via, [('name', 'str')], ['len(name) == %d' % L, 'chr(10) not in name'], body, extra_defs=SQL_FAKE)
    return Obl('sqlite_identifier[%s,len=%d]' % (via, L), src, timeout=timeout, meta={'function': 'rbql_sqlite.SqliteRecordIterator.__init__', 'bounds': 'every Unicode table name without LF, len == %d' % L})


def _ident_query_obl(ident, timeout):
    """End to end: the identifier comes from the query text (JOIN <ident> ON ...), data symbolic."""
    body = indent('''
conn = FakeConn()
out = []
try:
    rbql_engine.query(QUERY, rbql_engine.TableIterator([[c0], [c1]], ['k']), rbql_engine.TableWriter(out), [], rbql_sqlite.SqliteDbRegistry(conn))
    status = 'ok'
except (rbql_engine.RbqlIOHandlingError, rbql_engine.RbqlParsingError) as e:
    status = 'rejected'   # IO-handling error from the adapter, or a parsing error before the registry is even asked
good = all(ch in ALLOWED for ch in IDENT)
if good:
    exp = (['SELECT * FROM ' + IDENT + ';'], 'ok', [[c, 'x' if c == '1' else 'y'] for c in (c0, c1) if c in ('1', '2')])
else:
    exp = ([], 'rejected', [])
return ((conn.sqls, status, out), exp)
''')
    q = 'select a1, b2 join %s on a1 == b1' % ident
    src = harness('IDENT = %r\nQUERY = %r\n' % (ident, q), [('c0', 'str'), ('c1', 'str')], ['len(c0) <= 1', 'len(c1) <= 1'], body, extra_defs=SQL_FAKE)
    return Obl('sqlite_identifier_from_query[%s]' % ident.encode('unicode_escape').decode(), src, timeout=timeout, meta={'query': q, 'bounds': '2x1 table, cells len <= 1'})


# Sources that are not lists of lists of scalars: rows that are TUPLES (rows of a DB cursor, zip()), cells that are LISTS.
# "Identical before and after" is decided on three levels: the list holds the very same row objects, every row has its type and
# value, every (possibly mutable) cell has its value -- also after every produced record was overwritten in place
# (cells themselves are shared by reference between input and output, legitimately, and are not touched by the harness).  Whether the query itself succeeds is not the subject (several fail on tuple rows).
ODD_QUERIES = {
    'a1,a2': 'select a1, a2', 'star': 'select *', 'order': 'select a2, a1 order by a1 desc', 'update': 'update set a2 = 7 where a1 == 1',
    'join': 'select a1, b2 join b on a1 == b1', 'left-bstar': 'select a1, b.* left join b on a1 == b1', 'update-join': 'update set a2 = b2 join b on a1 == b1',
    'distinct': 'select distinct a2', 'group': 'select a1, COUNT(*), MAX(a2) group by a1', 'except': 'select * except a1', 'unnest': 'select a1, unnest([a2, a2])',
    'sum': 'select a1, SUM(a2) group by a1', 'sum-all': 'select SUM(a2)', 'min-max': 'select MIN(a2), MAX(a2)', 'array_agg': 'select ARRAY_AGG(a2)', 'any': 'select a1, ANY_VALUE(a2) group by a1',
    'median': 'select MEDIAN(a2)', 'a2+': 'select a2 + a2, a1', 'update-cell': 'update set a1 = a2', 'order-cell': 'select a2 order by a2', 'distinct-count': 'select distinct count a1',
    'avg': 'select AVG(a2)', 'variance': 'select a1, VARIANCE(a2) group by a1', 'join-cell': 'select b2, a2 join b on a1 == b1',
}


def _odd_rows_obl(qname, kind, timeout):
    query = ODD_QUERIES[qname]
    use_join = ' join ' in query
    body = indent('''
if KIND == 'tuple':
    T = [(k0, v0), (k1, v1), (k2, v2)]
    B = [(k3, v3), (k4, v4)]
    shadow_t = [(k0, v0), (k1, v1), (k2, v2)]
    shadow_b = [(k3, v3), (k4, v4)]
else:
    T = [[k0, [v0]], [k1, [v1, v0]], [k2, [v2]]]
    B = [[k3, [v3]], [k4, [v4]]]
    shadow_t = [[k0, [v0]], [k1, [v1, v0]], [k2, [v2]]]
    shadow_b = [[k3, [v3]], [k4, [v4]]]
rows_t = list(T)
rows_b = list(B)
out = []
try:
    rbql.query_table(QUERY, T, out, [], B if USE_JOIN else None)
    status = 'ok'
except Exception as e:
    status = 'failed'
for r in out:            # overwrite the produced RECORDS in place (cell objects are shared by reference, legitimately: they are not touched)
    if isinstance(r, list):
        for i in range(len(r)):
            r[i] = 'MUT'
        r.append('MUT')
same_objects = len(T) == len(rows_t) and all(x is y for x, y in zip(T, rows_t)) and len(B) == len(rows_b) and all(x is y for x, y in zip(B, rows_b))
same_types = all(type(x) is type(y) for x, y in zip(T, shadow_t)) and all(type(x) is type(y) for x, y in zip(B, shadow_b))
return ((same_objects, same_types, T == shadow_t, B == shadow_b), (True, True, True, True))
''')
    params = [('k%d' % i, 'int') for i in range(5)] + [('v%d' % i, 'int') for i in range(5)]
    pre = ['0 <= k%d < 2' % i for i in range(5)] + ['0 <= v%d < 3' % i for i in range(5)]
    src = harness('QUERY = %r\nKIND = %r\nUSE_JOIN = %r\n' % (query, kind, use_join), params, pre, body)
    return Obl('odd_sources[%s|%s]' % (kind, qname), src, timeout=timeout,
               meta={'query': query, 'function': 'rbql.query_table', 'bounds': '3-row input / 2-row join table, rows are %s; keys in 0..1, values in 0..2; outcome of the query itself not compared' % ('tuples' if kind == 'tuple' else 'lists whose second cell is a list')})


HOSTILE_IDENTS = ['t1', 'T_2', 't;DROP', 't--', 'a.b', 't"', "t'", 't(', '[t]', 't*', 'tä', 't;', 'sqlite_master', 't\\']


def selfcheck():
    from vf.refmodel import relcheck
    return relcheck.check()


def _src_obl(mod, name, a, b=None, timeout=150, **kw):
    q = mod.CASES[name] if mod is not None else CASES[name]
    prop = mod.__name__.split('.')[-1].upper() if mod is not None else 'C06'
    return qh.query_obl(prop, name, q, a, b, timeout=timeout, check_sources=True, mutate_output=True, tag='#src', **kw)


def obligations(tier, seed):
    obs = []
    quick = tier == 'quick'
    t = 150 if quick else 900
    # (a) list clause
    sel = [(c01, n) for n in (c01.QUICK if quick else c01.THOROUGH[::7] + c01.QUICK)]
    seen = set()
    for mod, name in sel:
        if name in seen:
            continue
        seen.add(name)
        q = mod.CASES[name]
        if q.join is not None:
            obs.append(_src_obl(mod, name, ['ks', 'ks'], ['ks', 'ks'], krange=2, timeout=t))
        else:
            obs.append(_src_obl(mod, name, ['so', 'o'] if quick else ['so', 'o', 'oss'], timeout=t))
    for name in [n for n in c02.CASES if n.startswith('q[') and ('top=2' in n or 'limit=1' in n or '=None' in n)][:: (3 if quick else 1)]:
        obs.append(_src_obl(c02, name, ['ii', 'ii', 'ii'], timeout=t))
    for name in (['grp1[ARRAY_AGG]', 'grp1[keyonly]', 'one[ANY_VALUE]'] if quick else [n for n in c03.CASES if n.startswith(('grp1[', 'one['))]):
        if name in c03.CASES:
            shape, kw = c03.SHAPE.get(name, (['ii', 'ii'], {}))
            obs.append(_src_obl(c03, name, shape, timeout=t, **kw))
    for name in c04.CASES:
        a, b, kw, isq = c04.SPEC[name]
        if ('|star]' in name or '|bstar]' in name or '|update' in name or 'raggedB' in name) and (isq or not quick):
            obs.append(_src_obl(c04, name, a, b, timeout=t, **kw))
    for name in c05.CASES:
        a, b, kw, isq = c05.SPEC[name]
        if quick and not name.startswith(('upd[swap', 'upd[rot3', 'upd[a3=lit', 'upd[NU|', 'updh[a.id', 'updj[left|swap', 'updj[inner|NU')):
            continue
        obs.append(_src_obl(c05, name, a, b, timeout=t, **kw))
    obs.append(_src_obl(None, 'fail[div]', ['is', 'is', 'i'], timeout=t))
    obs.append(_src_obl(None, 'fail[update-missing]', ['sss', 'ss', 'sss'], timeout=t))
    obs.append(_src_obl(None, 'fail[update-div]', ['is', 'is'], timeout=t))
    obs.append(_src_obl(None, 'fail[strict]', ['ks', 'ks'], ['ks', 'ks'], krange=2, timeout=t))
    obs.append(_src_obl(None, 'fail[order-none]', ['ss', 's', 'ss'], timeout=t))
    for qn in ODD_QUERIES:
        for kind in ('tuple', 'listcell'):
            if kind == 'tuple' and qn in ('avg', 'variance'):
                continue   # float arithmetic over symbolic ints: never confirms (see C03)
            obs.append(_odd_rows_obl(qn, kind, t))
    # (b) identifier clause
    for L in range(0, 5 if quick else 6):
        obs.append(_ident_obl(L, 'iterator', 120 if quick else 900))
    for L in (1, 3):
        obs.append(_ident_obl(L, 'registry', 120 if quick else 900))
    for ident in (HOSTILE_IDENTS[:6] if quick else HOSTILE_IDENTS):
        obs.append(_ident_query_obl(ident, 120))
    return obs
