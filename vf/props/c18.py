"""C18 -- Python and JavaScript implementations agree on the CSV dialect and headers (kernels).

Engine E2: the synchronous string kernels of rbql-js (csv_utils.js; the record-assembly methods of rbql_csv.js) are lowered from
their ESTree (acorn, bundled with node) to Python on EVERY run (vf/jslower), validated against real node on concrete vectors, and then
executed symbolically by CrossHair next to the Python implementation: the line / file text is symbolic (BMP code points), delimiter and
policy concrete.  Counterexamples are replayed in real node (require('/repo/rbql-js/...')) before they are reported.
"""
from vf.engine import Obl
from vf.gen import harness, indent, str_params

INFO = {
    'explanation': 'Each obligation: for EVERY line (BMP characters, fixed length per shard) the lowered JavaScript kernel and the Python kernel return the same fields and warning flag '
                   '(smart_split / split_quoted_str / split_whitespace_separated_str), the same quoted text (quote_field, rfc_quote_field) and the same unquoted text (unquote_field); '
                   'for EVERY file text the lowered record-assembly path of the JS reader (bulk mode: split_lines -> process_line -> record aggregation -> get_warnings) yields the records, '
                   'warnings and IO error of the Python CSVRecordIterator; tables written by either side\'s quoting kernel are read back identically by the other side.',
    'bounds': 'lines of length <= 4 (quick) / <= 6 (thorough); file texts of total length <= 4 / 5; delimiters , ; TAB SPACE |; all five policies; comment prefix on/off'
        '; JS stream path (two chunks, CR / LF / quote pairs at the cut) against the Python reader on ASCII files of 3-5 bytes',
    'outside': 'astral (non-BMP) characters and lone surrogates (UTF-16 code units differ from code points); async reader plumbing (streams, promises, queue); file and CLI level agreement; select lists outside the enumerated common-syntax family',
    'assumptions': ['the ESTree->Python lowering preserves JS semantics for the subset used (validated per run against real node on ~8000 concrete calls; every counterexample is replayed in real node)',
                    'node String/RegExp semantics as re-implemented in vf/jslower/jsrt.py'],
    'trusted': ['crosshair-tool 0.0.110', 'z3', 'node 20 + acorn (parsing only)', 'vf/jslower (translator + JS runtime shim)'],
}

PRELUDE = '''
from vf.jslower import build as _jsb
# the lowered modules were regenerated from /repo/rbql-js by the driver (selfcheck) just before the workers started
jsu = _jsb._load('js_csv_utils', _jsb.path_of('js_csv_utils'))
jsc = _jsb._load('js_rbql_csv', _jsb.path_of('js_rbql_csv'))


def norm(r):
    """JS [fields, warning] / Python (fields, warning) -> comparable tuple."""
    return (list(r[0]), bool(r[1]))


def node_check(*ns):
    """Replay in REAL node: the lowered kernel only located the input; the disagreement must show between real node and real Python."""
    kind = NODE_KIND
    if kind is None:
        return (True, 'no node replay defined for this obligation kind')
    s = ''.join(chr(int(n)) for n in ns)
    if kind == 'split':
        r = _jsb.node_calls(_jsb.JS + '/csv_utils.js', [['smart_split', s, DLM, POLICY, PRESERVE]])[0]
        py = csv_utils.smart_split(s, DLM, POLICY, PRESERVE)
        return ('ok' not in r or norm(r['ok']) != norm(py), {'node': repr(r)[:300], 'python': repr(py)[:300]})
    if kind in ('quote_field', 'rfc_quote_field', 'unquote_field'):
        call = [kind, s] + ([] if kind == 'unquote_field' else [DLM])
        r = _jsb.node_calls(_jsb.JS + '/csv_utils.js', [call])[0]
        py = getattr(csv_utils, kind)(*call[1:])
        return ('ok' not in r or r['ok'] != py, {'node': repr(r)[:300], 'python': repr(py)[:300]})
    return (True, 'not replayed in node')
'''

BMP = lambda n: '(%s < 0xD800 or 0xE000 <= %s < 0x10000)' % (n, n)  # noqa


def selfcheck():
    from vf.jslower import build
    try:
        return build.validate_all()
    except Exception as e:  # noqa
        return 'lowering failed: %r' % (e,)


def _params(name, L):
    params, pre, expr = str_params(name, L)
    pre = ['0 <= %s' % n for n, _t in params] + [BMP(n) for n, _t in params]
    if not params:
        params, pre = [('dummy', 'int')], ['dummy == 0']
    return params, pre, expr


def _split_obl(dlm, policy, preserve, L, timeout):
    params, pre, expr = _params('s', L)
    body = indent('''
s = %s
g = norm(jsu.smart_split(s, DLM, POLICY, PRESERVE))
e = norm(csv_utils.smart_split(s, DLM, POLICY, PRESERVE))
return (g, e)
''' % expr)
    src = harness('NODE_KIND = %r\nDLM = %r\nPOLICY = %r\nPRESERVE = %r\n' % ('split', dlm, policy, preserve), params, pre, body, extra_defs=PRELUDE)
    o = Obl('js_vs_py_split[%s,%r,preserve=%d,len=%d]' % (policy, dlm, preserve, L), src, timeout=timeout,
            meta={'function': 'csv_utils.js smart_split vs csv_utils.py smart_split', 'node': {'module': 'csv_utils.js', 'fn': 'smart_split', 'args': ['$s', dlm, policy, preserve]},
                  'bounds': 'every BMP line of length %d' % L})
    return o


def _quote_obl(fn, dlm, L, timeout):
    params, pre, expr = _params('s', L)
    if fn == 'unquote_field':
        body = indent('''
s = %s
return (jsu.unquote_field(s), csv_utils.unquote_field(s))
''' % expr)
    else:
        body = indent('''
s = %s
return (jsu.%s(s, DLM), csv_utils.%s(s, DLM))
''' % (expr, fn, fn))
    src = harness('NODE_KIND = %r\nDLM = %r\n' % (fn, dlm), params, pre, body, extra_defs=PRELUDE)
    return Obl('js_vs_py_%s[%r,len=%d]' % (fn, dlm, L), src, timeout=timeout, meta={'function': 'csv_utils.js %s vs csv_utils.py %s' % (fn, fn), 'bounds': 'every BMP string of length %d' % L})


def _cross_roundtrip_obl(writer, dlm, policy, lens, timeout):
    """Fields quoted by one language's kernel and joined are split back by the OTHER language's kernel."""
    params, pre, exprs = [], [], []
    for i, l in enumerate(lens):
        p_, pre_, e_ = _params('f%d' % i, l)
        if p_[0][0] != 'dummy':
            params += p_
            pre += pre_
        exprs.append(e_)
    if policy == 'quoted':
        pre += ['%s != 10 and %s != 13' % (n, n) for n, _t in params]
    if not params:
        params, pre = [('dummy', 'int')], ['dummy == 0']
    q = 'rfc_quote_field' if policy == 'quoted_rfc' else 'quote_field'
    body = indent('''
fields = [%s]
if WRITER == 'py':
    line = DLM.join([csv_utils.%s(f, DLM) for f in fields])
    back = norm(jsu.smart_split(line, DLM, POLICY, False))
else:
    line = DLM.join([jsu.%s(f, DLM) for f in fields])
    back = norm(csv_utils.smart_split(line, DLM, POLICY, False))
return (back, (fields, False))
''' % (', '.join(exprs), q, q))
    src = harness('NODE_KIND = None\nWRITER = %r\nDLM = %r\nPOLICY = %r\n' % (writer, dlm, policy), params, pre, body, extra_defs=PRELUDE)
    return Obl('cross_roundtrip[%s-writes,%s,%r,lens=%s]' % (writer, policy, dlm, '+'.join(map(str, lens))), src, timeout=timeout,
               meta={'function': '%s quoting kernel -> %s splitting kernel' % (writer, 'js' if writer == 'py' else 'py'), 'bounds': 'every field list with lengths %s' % (lens,)})


def _reader_obl(dlm, policy, comment, enc, lens, timeout):
    params, pre, exprs = [], [], []
    for i, l in enumerate(lens):
        p_, pre_, e_ = _params('p%d' % i, l)
        if p_[0][0] != 'dummy':
            params += p_
            pre += pre_
        exprs.append(e_)
    if not params:
        params, pre = [('dummy', 'int')], ['dummy == 0']
    body = indent('''
text = ''.join([%s])
py = csvh.read_all([text], PY_ENC, DLM, POLICY, False, COMMENT)
js_res = jsc.read_bulk_text(text, JS_ENC, DLM, POLICY, False, COMMENT)
if py[0] == 'ok':
    py = ('ok', py[1], sorted(py[3]))
if js_res[0] == 'ok':
    js_res = ('ok', js_res[1], sorted(js_res[2]))
return (js_res, py)
''' % ', '.join(exprs))
    imports = 'from vf import csvh\nNODE_KIND = None\nDLM = %r\nPOLICY = %r\nCOMMENT = %r\nPY_ENC = %r\nJS_ENC = %r\n' % (dlm, policy, comment, enc, {'latin-1': 'binary'}.get(enc, enc))
    src = harness(imports, params, pre, body, extra_defs=PRELUDE)
    return Obl('js_vs_py_reader[%s,%r,comment=%r,enc=%s,lens=%s]' % (policy, dlm, comment, enc, '+'.join(map(str, lens))), src, timeout=timeout,
               meta={'function': 'rbql_csv.js CSVRecordIterator (bulk path, lowered) vs rbql_csv.py CSVRecordIterator', 'bounds': 'every BMP file text of length %d' % sum(lens)})


def _stream_reader_obl(dlm, policy, comment, pattern, cut, timeout):
    """The JS reader in STREAM mode (two Buffers, the cut is part of the shard) against the Python reader on the same ASCII file."""
    params, pre, cells = [], [], []
    for i, k in enumerate(pattern):
        if k == 'x':
            params.append(('b%d' % i, 'int'))
            pre.append('0 <= b%d < 128' % i)
            cells.append('b%d' % i)
        else:
            cells.append(str({'cr': 13, 'lf': 10, 'q': 34, 'd': ord(dlm[0]) if dlm else 44}[k]))
    if not params:
        params, pre = [('dummy', 'int')], ['dummy == 0']
    body = indent('''
from vf.jslower import jsrt
data = [%s]
text = ''.join([chr(b) for b in data])
py = csvh.read_all([text], None, DLM, POLICY, False, COMMENT)
js_res = jsc.read_stream_chunks([jsrt.Buffer(data[:CUT]), jsrt.Buffer(data[CUT:])], 'binary', DLM, POLICY, COMMENT)
if py[0] == 'ok':
    py = ('ok', py[1], sorted(py[3]))
if js_res[0] == 'ok':
    js_res = ('ok', js_res[1], sorted(js_res[2]))
return (js_res, py)
''' % ', '.join(cells))
    imports = 'from vf import csvh\nNODE_KIND = None\nDLM = %r\nPOLICY = %r\nCOMMENT = %r\nCUT = %d\n' % (dlm, policy, comment, cut)
    src = harness(imports, params, pre, body, extra_defs=PRELUDE)
    return Obl('js_stream_vs_py_reader[%s,%r,comment=%r,%s,cut=%d]' % (policy, dlm, comment, '.'.join(pattern), cut), src, timeout=timeout,
               meta={'function': 'rbql_csv.js CSVRecordIterator (stream path, lowered, two chunks) vs rbql_csv.py CSVRecordIterator',
                     'bounds': 'every ASCII file of structure %s (x = any byte < 128), second chunk starting at offset %d' % (pattern, cut)})


HDR_PRELUDE = PRELUDE + '''
jsr = _jsb._load('js_rbql', _jsb.path_of('js_rbql'))


def js_header(sel, ha, hb):
    fmt, lits = jsr.separate_string_literals(sel)
    _t, for_header = jsr.translate_select_expression(fmt)
    infos = jsr.adhoc_parse_select_expression_to_column_infos(for_header, lits)
    try:
        return jsr.select_output_header(ha, hb, infos)
    except jsr.RbqlParsingError:
        return 'RbqlParsingError'


def py_header(sel, ha, hb):
    fmt, lits = rbql_engine.separate_string_literals(sel)
    _t, for_ast = rbql_engine.translate_select_expression(fmt)
    infos = rbql_engine.ast_parse_select_expression_to_column_infos(rbql_engine.combine_string_literals(for_ast, lits))
    try:
        return rbql_engine.select_output_header(ha, hb, infos)
    except rbql_engine.RbqlParsingError:
        return 'RbqlParsingError'
'''

# select lists in syntax common to Python and JavaScript (concrete; the header NAMES are symbolic)
SELECT_LISTS = ['a1, a2', 'a2, NR, a1', '*', 'a.*, b.*', 'b.*, a1', 'a1 as x, a2', 'a1 + a2, a3 AS total', 'NR, NF, a4', 'a[1], a[2]', 'a["n"], b["m"]', "a['n'] as q, *",
                'a.n, b.m, a.n', 'f(a1, a2), a3', '[a1, a2][0], a1', 'a1 , a2 ', ' *, a1', 'a1,*,b2', 'b1, b[2]', 'a1 as a2, a2', '"lit", a1', "'x,y' as s, a1",
                'a1 == a2, a1', 'a.n as m, a.*', 'a["x y"]', '-a1', 'a1 as X1', 'NR as nr', '*, *', 'a1 as x ,a2', 'COUNT(*), a1', 'count( * ) as c', 'a1, a2, a3, b1, b2, b3', 'a7, b9 as z']
# spellings on which the text-span based JS inference is known to fall back to colK where the ast based Python inference names the column (finding F9)
F9_LISTS = ['(a1), a2', 'a[ 1 ]', 'a .n']


def _header_obl(sel, with_header, timeout, expect='hold', finding=None):
    if with_header:
        params = [('h0', 'str'), ('h2', 'str'), ('g1', 'str')]
        pre = ['len(h0) <= 2', 'len(h2) <= 2', 'len(g1) <= 2']
        hexpr = "[h0, 'n', h2, 'x y']"
        gexpr = "['m', g1]"
    else:
        params = [('dummy', 'int')]
        pre = ['dummy == 0']
        hexpr = gexpr = 'None'
    body = indent('''
ha = %s
hb = %s
return (js_header(SEL, ha, hb), py_header(SEL, ha, hb))
''' % (hexpr, gexpr))
    src = harness('NODE_KIND = None\nSEL = %r\n' % sel, params, pre, body, extra_defs=HDR_PRELUDE)
    o = Obl('js_vs_py_header[%s|hdr=%d]' % (sel, with_header), src, timeout=timeout, expect=expect, finding=finding,
            meta={'function': 'rbql.js adhoc_parse_select_expression_to_column_infos + select_output_header (lowered) vs rbql_engine.py ast_parse_... + select_output_header',
                  'select_list': sel, 'bounds': 'input header [h0, "n", h2, "x y"], join header ["m", g1] with h0, h2, g1 any strings of length <= 2' if with_header else 'no headers'})
    return o


def obligations(tier, seed):
    obs = []
    quick = tier == 'quick'
    t = 200 if quick else 1200
    cfgs = [(',', 'quoted'), (' ', 'quoted'), (';', 'quoted_rfc'), ('\t', 'simple'), (' ', 'whitespace'), ('|', 'quoted'), (',', 'monocolumn'), ('::', 'quoted'), (':=)', 'quoted_rfc')]
    for ci, (dlm, policy) in enumerate(cfgs):
        for preserve in (False, True):
            for L in ((0, 1, 2, 3, 4) if quick else (0, 1, 2, 3, 4, 5, 6)):
                if policy in ('simple', 'monocolumn') and (preserve or L > 3):
                    continue
                if quick and L == 4 and (ci + seed) % 2 and policy != 'quoted':
                    continue
                obs.append(_split_obl(dlm, policy, preserve, L, t))
    for fn in ('quote_field', 'rfc_quote_field', 'unquote_field'):
        for dlm in ((',', ' ') if fn != 'unquote_field' else (',',)):
            for L in ((0, 1, 2, 3, 4) if quick else (0, 1, 2, 3, 4, 5, 6)):
                obs.append(_quote_obl(fn, dlm, L, t))
    for writer in ('py', 'js'):
        for dlm, policy in ((',', 'quoted'), (';', 'quoted_rfc'), (' ', 'quoted')):
            for lens in ([(2,), (1, 1), (0, 2)] if quick else [(2,), (3,), (1, 1), (0, 2), (2, 1), (1, 2), (1, 1, 1), (2, 2)]):
                obs.append(_cross_roundtrip_obl(writer, dlm, policy, lens, t))
    for i, sel in enumerate(SELECT_LISTS):
        for wh in (True, False):
            if quick and not wh and (i + seed) % 3:
                continue
            obs.append(_header_obl(sel, wh, 120 if quick else 600))
    for sel in F9_LISTS:
        o = _header_obl(sel, True, 120, expect='known', finding='F9')
        o.twin = None
        obs.append(o)
    from vf.jslower import build
    if build.HAVE_READER:
        rcfgs = [(',', 'quoted', None, None), (',', 'quoted_rfc', '#', None), ('\t', 'simple', None, 'utf-8'), (' ', 'whitespace', '#', None), (',', 'quoted', '#', 'latin-1'), ('', 'monocolumn', None, 'utf-8')]
        for ci, (dlm, policy, comment, enc) in enumerate(rcfgs):
            for lens in ([(1,), (2,), (3,), (1, 2)] if quick else [(0,), (1,), (2,), (3,), (2, 2), (3, 2), (2, 1, 2)]):
                if quick and sum(lens) == 4 and policy in ('quoted', 'quoted_rfc') and ci % 2:
                    continue
                obs.append(_reader_obl(dlm, policy, comment, enc, lens, t))
        # stream mode: a CRLF pair, a quote pair and free bytes across the chunk boundary
        for dlm, policy, comment in ((',', 'quoted', None), (',', 'quoted_rfc', '#'), ('\t', 'simple', None)):
            for pattern, cut in ((['x', 'cr', 'lf', 'x'], 2), (['x', 'x', 'x'], 1), (['x', 'x', 'x'], 2), (['cr', 'lf', 'x', 'x'], 1)) + (() if quick else ((['x', 'q', 'q', 'x'], 2), (['x', 'x', 'x', 'x'], 2), (['x', 'cr', 'lf', 'cr', 'lf'], 2))):
                obs.append(_stream_reader_obl(dlm, policy, comment, pattern, cut, t))
    return obs
