"""C14 -- Errors name the first offending record; warnings appear iff the anomaly occurred.

Decided by CrossHair over the real rbql_engine.query_table / rbql_engine.query with the CSV adapters:
 * poison family: for every clause that can evaluate a record, a query whose expression fails exactly on "poisoned" cells, over a
   symbolic table -> RbqlRuntimeError naming the FIRST poisoned record (and field), nothing written that the reference would not
   have emitted before it;
 * static family: mistakes visible in the query text -> RbqlParsingError (or IO-handling error for inconsistent header modes) and
   zero records written, for every table;
 * warnings: field-count warning iff >= 2 distinct lengths (first record of each of the first two lengths); through the CSV
   adapters: BOM / defective quoting / None / separator warnings iff the condition occurred.
"""
import itertools

from vf import qh
from vf.engine import Obl
from vf.gen import harness, indent, str_params
from vf.qlib import *  # noqa

INFO = {
    'explanation': 'Poison obligations: for EVERY int table of the stated shape the error class, the record number in the message and the already written rows equal the reference '
                   '(first record, in input order, on which any clause raises). Static obligations: for EVERY table the statically wrong query raises the documented error class and writes nothing. '
                   'Warning obligations: warnings list equals the reference list (iff-conditions) for every table / CSV text within bounds.',
    'bounds': 'tables <= 3 rows of ints (poison = 0 for `10 // a1`, non-zero for `[0][a1]`, None for attribute access); ragged shapes up to 3 rows x 0..2 fields; CSV texts of <= 3 characters per line, 2 lines',
    'outside': 'error message CONTENTS beyond their documented prefix (an exception text embedding a symbolic cell is concretised by the engine); header-ful CSV record numbering (property excludes it); JS twin',
    'assumptions': ['poison expressions are chosen so that the inner exception text does not embed a symbolic cell'],
    'trusted': ['crosshair-tool 0.0.110', 'z3', 'CPython 3.12.1'],
}

DIV = Item('10 // a1', lambda e: 10 // e.a(1))
IDX = Item('[0][a2]', lambda e: [0][e.a(2)])
ATTR = Item('a2.numerator', lambda e: e.a(2).numerator)
CASES = {}
SPEC = {}


def _add(name, q, a, b=None, quick=False, **kw):
    assert name not in CASES, name
    CASES[name] = q
    SPEC[name] = (a, b, kw, quick)


def _build():
    A3 = ['ii', 'ii', 'ii']
    _add('poison[select]', Q(items=[fa(2), DIV]), A3, quick=True)
    _add('poison[select2]', Q(items=[IDX, NR, DIV]), A3)
    _add('poison[select-none]', Q(items=[NR, ATTR]), ['ii', 'i', 'ii'], quick=True)
    _add('poison[where]', Q(items=[fa(2), NR], where=('10 // a1 > 1', lambda e: 10 // e.a(1) > 1)), A3, quick=True)
    _add('poison[where+top]', Q(items=[fa(2)], where=('[0][a2] == 0', lambda e: [0][e.a(2)] == 0), top=2), A3)
    _add('poison[orderby]', Q(items=[fa(2), NR], order=[('10 // a1', lambda e: 10 // e.a(1))]), A3, quick=True)
    _add('poison[groupby]', Q(items=[Item('COUNT(*)', lambda e: 1, kind='agg', agg='COUNT')], group=[('10 // a1', lambda e: 10 // e.a(1))]), A3, quick=True)
    _add('poison[aggarg]', Q(items=[agg('SUM', '10 // a1', lambda e: 10 // e.a(1)), agg('MAX', 'a2', lambda e: e.a(2))]), A3, quick=True)
    _add('poison[aggarg,grp]', Q(items=[fa(2), agg('MIN', '[0][a1]', lambda e: [0][e.a(1)])], group=[('a2', lambda e: e.a(2))]), A3)
    _add('poison[update]', Q(update=[('a2', 1, '10 // a1', lambda e: 10 // e.a(1))]), A3, quick=True)
    _add('poison[update,2nd]', Q(update=[('a1', 0, 'a2', lambda e: e.a(2)), ('a2', 1, '[0][a1]', lambda e: [0][e.a(1)])], where=('a2 >= 0', lambda e: e.a(2) >= 0)), A3)
    _add('poison[update-missing]', Q(update=[('a2', 1, '7', lambda e: 7)], where=('a1 != 0', lambda e: e.a(1) != 0)), ['ii', 'i', 'i'], quick=True)
    _add('poison[update-missing3]', Q(update=[('a1', 0, '7', lambda e: 7), ('a3', 2, 'a1', lambda e: e.a(1))]), ['iii', 'ii', 'iii'])
    _add('poison[distinct]', Q(items=[DIV], distinct='distinct'), A3)
    _add('poison[distinct-count]', Q(items=[fa(2), DIV], distinct='count'), A3, quick=True)
    _add('poison[unnest]', Q(items=[NR, Item('UNNEST([a2, 10 // a1])', lambda e: [e.a(2), 10 // e.a(1)], kind='unnest')]), A3, quick=True)
    _add('poison[unnest-arg-not-list]', Q(items=[Item('UNNEST(list(range(a2)))', lambda e: list(range(e.a(2))), kind='unnest'), DIV]), ['ik', 'ik'], krange=3)
    _add('poison[except]', Q(excpt=[1], excpt_text='a2', where=('10 // a1 != 3', lambda e: 10 // e.a(1) != 3)), A3)
    # numeric conversion failures of the aggregates are reported at the offending record ('p' cells: '7' or the non-numeric 'x', chosen by symbolic bools)
    for ag in ('MIN', 'MAX', 'SUM', 'AVG', 'VARIANCE', 'MEDIAN'):
        _add('poison[convert-%s]' % ag, Q(items=[agg(ag, 'a2', lambda e: e.a(2))]), ['ip', 'ip', 'ip'], quick=True)
        _add('poison[convert-%s,grp]' % ag, Q(items=[fa(1), agg(ag, 'a2', lambda e: e.a(2), ag.lower())], group=[('a1', lambda e: e.a(1))]), ['kp', 'kp', 'kp'], krange=2)
    jj = join('JOIN')
    _add('poison[join-select]', Q(items=[fa(1), Item('10 // b2', lambda e: 10 // e.b(2))], join=jj), ['ki', 'ki'], ['ki', 'ki'], quick=True, krange=2)
    _add('poison[join-where]', Q(items=[fb(2), NR], join=join('LEFT JOIN'), where=('10 // a2 > 0', lambda e: 10 // e.a(2) > 0)), ['ki', 'ki', 'ki'], ['ki'], krange=2)
    _add('poison[join-akey-missing]', Q(items=[fa(1), fb(1)], join=join('JOIN', ((1, 0),))), ['kk', 'k', 'kk'], ['kk', 'kk'], quick=True, krange=2)
    _add('poison[join-bkey-missing]', Q(items=[fa(1), fb(1)], join=join('JOIN', ((0, 1),))), ['kk', 'kk'], ['kk', 'k'], quick=True, krange=2)
    _add('poison[join-bkey-missing2]', Q(items=[STAR], join=join('LEFT JOIN', ((0, 0), (1, 2)))), ['kk'], ['kkk', 'kk', 'k'], krange=2)
    _add('poison[strict]', Q(items=[fa(2), fb(2)], join=join('STRICT LEFT JOIN')), ['ki', 'ki', 'ki'], ['ki', 'ki'], quick=True, krange=2)
    _add('poison[update-join-multi]', Q(update=[('a2', 1, 'b2', lambda e: e.b(2))], join=jj), ['ki', 'ki'], ['ki', 'ki'], quick=True, krange=2)
    _add('poison[update-join-rhs]', Q(update=[('a2', 1, '10 // b2', lambda e: 10 // e.b(2))], join=join('LEFT JOIN')), ['ki', 'ki'], ['ki'], krange=2)
    # warnings: every ragged shape up to 3 rows x 0..2 fields, whole-input queries
    n = 0
    for nrows in (1, 2, 3):
        for widths in itertools.product((0, 1, 2), repeat=nrows):
            shape = ['i' * w for w in widths]
            kind = n % 3
            n += 1
            if kind == 0:
                q = Q(items=[NR, NF])
            elif kind == 1:
                q = Q(items=[STAR], order=[('NF', lambda e: e.NF)], desc=True, order_suffix='DESC')
            else:
                q = Q(items=[Item('COUNT(*)', lambda e: 1, kind='agg', agg='COUNT')], where=('NF < 2', lambda e: e.NF < 2))
            _add('warn[%s]' % '/'.join(str(w) for w in widths), q, shape, quick=(nrows < 3 or n % 3 == 0))
    _add('warn[joinB]', Q(items=[fa(1), fb(1)], join=jj), ['k', 'kk'], ['k', 'kk', 'k'], quick=True, krange=2)


_build()

STATIC = [
    # (name, query text, header?, join table?, expected class, expected message prefix)
    ('both', 'select a1 update a2 = 5', None, False, 'RbqlParsingError', 'Query can not contain both SELECT and UPDATE'),
    ('orderby-in-update', 'update a1 = 5 order by a2', None, False, 'RbqlParsingError', '"ORDER BY" is not allowed in "UPDATE" queries'),
    ('unknown-column', 'select a.nosuch', ['x', 'y'], False, 'RbqlParsingError', 'Unable to find column "nosuch"'),
    ('assign-in-where', 'select a1 where a2 = 5', None, False, 'RbqlParsingError', 'Assignments "=" are not allowed in "WHERE" expressions'),
    ('bad-limit', 'select a1 limit 2a', None, False, 'RbqlParsingError', 'LIMIT keyword must be followed by an integer'),
    ('except+join', 'select * except a1 join b on a1 == b1', None, True, 'RbqlParsingError', 'EXCEPT and JOIN are not allowed in the same query'),
    ('no-select', 'a1, a2 where a1 > 0', None, False, 'RbqlParsingError', 'Query must contain either SELECT or UPDATE statement'),
    ('select-not-first', 'where a1 > 0 select a1', None, False, 'RbqlParsingError', 'SELECT keyword must be at the beginning of the query'),
    ('update-not-first', 'where a1 > 0 update a1 = 2', None, False, 'RbqlParsingError', 'UPDATE keyword must be at the beginning of the query'),
    ('two-where', 'select a1 where a1 > 0 where a2 > 0', None, False, 'RbqlParsingError', 'More than one "WHERE" statements found'),
    ('empty-select', 'select  where a1 > 0', None, False, 'RbqlParsingError', '"SELECT" expression is empty'),
    ('bad-join-syntax', 'select a1 join b on: a1 == b1', None, True, 'RbqlParsingError', 'Invalid join syntax'),
    ('unknown-join-field-a', 'select a1 join b on b2 == b1', None, True, 'RbqlParsingError', 'Unable to parse JOIN expression: Input table does not have field "b2"'),
    ('unknown-join-field-b', 'select a1 join b on a1 == c1', None, True, 'RbqlParsingError', 'Unable to parse JOIN expression: Join table does not have field "c1"'),
    ('update-unknown-field', 'update a.zz = 5', ['x', 'y'], False, 'RbqlParsingError', 'Unable to find column "zz"'),
    ('update-no-assignment', 'update a[2], a1 = 5', None, False, 'RbqlParsingError', 'Unable to parse "UPDATE" expression'),
    ('except-unknown', 'select * except a1, a.q', None, False, 'RbqlParsingError', 'Unknown field in EXCEPT expression: "a.q"'),
    ('join-unsupported', 'select a1 join b on a1 == b1', None, False, 'RbqlParsingError', 'JOIN operations are not supported by the application'),
    ('unknown-join-table', 'select a1 join c on a1 == c1', None, True, 'RbqlParsingError', 'Unable to find join table: "c"'),
    ('groupby+orderby', 'select a1, count(*) group by a1 order by a1', None, False, 'RbqlParsingError', '"ORDER BY", "UPDATE" and "DISTINCT" keywords are not allowed in aggregate queries'),
    ('star+alias-noheader', 'select *, a1 as x', None, False, 'RbqlParsingError', 'Using both * (star) and AS alias in the same query is not allowed'),
    ('header-mismatch-a', 'select a1 join b on a1 == b1', ['x', 'y'], True, 'RbqlIOHandlingError', 'Inconsistent modes: Input table has a header while the Join table doesn'),
    # dynamic-but-textual mistakes: reported as parsing errors as soon as one record is evaluated, nothing written
    ('two-unnest', 'select unnest([a1, a2]), unnest([1, 2])', None, False, 'RbqlParsingError+', 'Only one UNNEST is allowed per query'),
    ('agg-in-expr', 'select MAX(a1) / 2', None, False, 'RbqlParsingError+', 'Usage of RBQL aggregation functions inside Python expressions is not allowed'),
    ('distinct-count+agg', 'select distinct count a1, count(*) group by a1', None, False, 'RbqlParsingError+', 'keywords are not allowed in aggregate queries'),
    ('distinct+agg', 'select distinct a2, MAX(a1) group by a2', None, False, 'RbqlParsingError+', 'keywords are not allowed in aggregate queries'),
    ('distinct-count+agg-nogroup', 'select distinct count SUM(a1)', None, False, 'RbqlParsingError+', 'keywords are not allowed in aggregate queries'),
    ('agg+orderby', 'select MAX(a1) order by a2', None, False, 'RbqlParsingError+', '"ORDER BY", "UPDATE" and "DISTINCT" keywords are not allowed in aggregate queries'),
    ('agg-count-mismatch', 'select MAX(a1), [MIN(a2)]', None, False, 'RbqlParsingError+', 'Usage of RBQL aggregation functions inside Python expressions is not allowed'),
]


def _static_obl(spec, shape, timeout):
    name, text, ha, use_b, cls, prefix = spec
    pa, pb, po, texpr = qh.table_params('a', shape)
    if not pa:
        pa, pb = [('dummy', 'int')], ['dummy == 0']
    dynamic = cls.endswith('+')
    cls = cls.rstrip('+')
    body = indent('''
T = %s
B = [[1, 2], [3, 4]] if USE_B else None
got = qh.run_rbql(TEXT, T, B, HA, None)
if DYNAMIC and len(T) == 0:
    exp = ('ok', [], None, [])
    return (got, exp)
if got[0] != 'err':
    return (got, ('err', CLS, []))
# the property fixes the error CLASS and "nothing written"; the message wording is not asserted
return (('err', got[1], got[3]), ('err', CLS, []))
''' % texpr)
    imports = 'from vf import qh\nTEXT = %r\nHA = %r\nUSE_B = %r\nCLS = %r\nPREFIX = %r\nDYNAMIC = %r\n' % (text, ha, use_b, cls, prefix, dynamic)
    src = harness(imports, pa, pb + po, body)
    return Obl('static[%s][A=%s]' % (name, qh.shape_name(shape)), src, timeout=timeout, meta={'query': text, 'bounds': 'every int table of shape %s' % qh.shape_name(shape)})


def _csv_warn_obl(cfg, lens, timeout):
    """rbql.query over the real CSV reader + writer: the warning list is exactly input warnings + writer warnings."""
    dlm_in, pol_in, enc, dlm_out, pol_out, query = cfg
    params, pre, exprs = [], [], []
    for i, l in enumerate(lens):
        p_, pre_, e_ = str_params('l%d' % i, l)
        params += p_
        pre += pre_
        exprs.append(e_)
    pre += ['%s != 10 and %s != 13' % (n, n) for n, _t in params]
    body = indent('''
text = chr(10).join([%s]) + chr(10)
exp_in = csvref.expected_read(text, DLM_IN, POL_IN, False, None, ENC)
out = stubs.StubOut()
warnings = []
try:
    it = rbql_csv.CSVRecordIterator(stubs.PieceIn([text]), ENC, DLM_IN, POL_IN)
    w = rbql_csv.CSVWriter(out, False, None, DLM_OUT, POL_OUT)
    rbql_engine.query(QUERY, it, w, warnings)
    got = ('ok', warnings)
except rbql_engine.RbqlIOHandlingError as e:
    got = ('io', e.args[0])
if exp_in[0] == 'io':
    return (got, exp_in)
ew = list(exp_in[3])
recs = exp_in[1]
# the query is `select a1, a2`: a2 is None exactly for one-field records; simple output warns iff a written field holds the delimiter
if any(len(r) < 2 for r in recs):
    ew.append('None values in output were replaced by empty strings')
if POL_OUT == 'simple' and any((DLM_OUT in f) for r in recs for f in r[:2]):
    ew.append('Some output fields contain separator')
return (got, ('ok', ew))
''' % ', '.join(exprs))
    imports = 'from vf import csvh\nfrom vf.refmodel import csvref\nDLM_IN = %r\nPOL_IN = %r\nENC = %r\nDLM_OUT = %r\nPOL_OUT = %r\nQUERY = %r\n' % (dlm_in, pol_in, enc, dlm_out, pol_out, query)
    src = harness(imports, params, pre, body)
    return Obl('csvwarn[%s>%s,%s,%s,lines=%s]' % (pol_in, pol_out, enc, query[7:], '+'.join(map(str, lens))), src, timeout=timeout,
               meta={'query': query, 'bounds': 'every CSV text of %d lines with lengths %s (no CR/LF inside a line)' % (len(lens), lens)})


def selfcheck():
    from vf.refmodel import relcheck
    return relcheck.check()


def obligations(tier, seed):
    obs = []
    quick = tier == 'quick'
    rot = set(qh.rotating([n for n in CASES if not SPEC[n][3]], seed, 8)) if quick else set()
    for name in CASES:
        a, b, kw, isq = SPEC[name]
        if quick and not isq and name not in rot:
            continue
        obs.append(qh.query_obl('C14', name, CASES[name], a, b, timeout=150 if quick else 900, **kw))
    shapes = [['ii', 'ii'], [], ['i', 'ii', '']]
    for i, spec in enumerate(STATIC):
        for j, shape in enumerate(shapes):
            if spec[2] is not None and shape and len(shape[0]) != len(spec[2]):
                continue      # a header whose length differs from the first record is itself an (IO-handling) error, reported first
            if quick and j != (i + seed) % 2 and not (spec[4].endswith('+') and j < 2) and spec[2] is None:
                continue
            obs.append(_static_obl(spec, shape, 120 if quick else 600))
    cfgs = [(',', 'quoted', 'utf-8', '\t', 'simple', 'select a1, a2'), (',', 'quoted_rfc', None, ',', 'quoted', 'select a1, a2'),
            ('\t', 'simple', 'utf-8', ',', 'simple', 'select a1, a2'), (',', 'quoted', 'latin-1', ';', 'simple', 'select a1, a2'),
            (',', 'quoted', None, ';', 'simple', 'select [a1, a2]'), (',', 'simple', None, ',', 'quoted', 'select NR, [a2, a1]')]
    for ci, cfg in enumerate(cfgs):
        for lens in ([(2, 1), (1, 2), (3,)] if quick else [(2, 1), (1, 2), (3,), (2, 2), (3, 1), (1, 3), (4,), (1, 1, 1), (3, 2)]):
            obs.append(_csv_warn_obl(cfg, lens, 200 if quick else 1200))
    return obs
