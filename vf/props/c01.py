"""C01 -- SELECT/WHERE yields exactly the projected matching records, in input order.

Decided by CrossHair over the real rbql_engine.query_table: the query text is one concrete member of the generated
select/where grammar family, every cell of the input (and join) table is symbolic (str or None), the table shape is fixed
per shard (ragged and empty shapes included); oracle = relational reference interpreter (vf/refmodel/rel.py).
"""
import itertools

from vf import qh
from vf.qlib import *  # noqa

INFO = {
    'explanation': 'Each obligation: for EVERY table of the stated shape (cells arbitrary Unicode strings up to the length bound, or None) '
                   'rbql_engine.query_table(<concrete query>) returns exactly the rows / header / warnings / error (class, record number) of the '
                   'reference interpreter.  The query family enumerates the select/where grammar: item kinds field, a[N], expression, literal, '
                   '*, a.*, b.*, * EXCEPT, UNNEST (incl. lists that are empty for some rows), with and without WHERE and JOIN.',
    'bounds': 'tables <= 3 rows x <= 3 fields, cells str len <= 2 or None (shape per shard); join table <= 2 rows; select lists of 1..3 items',
    'outside': 'symbolic query text (compile()/ast.parse are C entry points); cells longer than the bound; tables with more rows; JS twin (C19 n/a)',
    'assumptions': ['CrossHair models of str/list/dict/re faithful to CPython (counterexamples replayed concretely)',
                    'hash containers of rbql_engine (defaultdict/OrderedDict) replaced by equality-based maps under symbolic execution only',
                    'reference interpreter self-validated per run on the repository\'s test/rbql_unit_tests.json expected tables'],
    'trusted': ['crosshair-tool 0.0.110', 'z3', 'CPython 3.12.1'],
}

ITEMS = {
    'a1': fa(1), 'a2': fa(2), 'a3': fa(3), 'arr2': arr(2), 'arr1': arr(1), 'cat': CONCAT12, 'cat1x': CONCAT1X, 'len': LEN1, 'NR': NR, 'NF': NF,
    'nr2': NR2, 'lits': LITS, 'litd': LITD, 'lit7': LIT7, 'star': STAR, 'astar': ASTAR, 'unsplit': UNNEST_SPLIT, 'untail': UNNEST_TAIL,
    'unpair': UNNEST_PAIR, 'unnf': UNNEST_NF,
}
JITEMS = {'b1': fb(1), 'b2': fb(2), 'bstar': BSTAR, 'bNR': BNR, 'unb': UNNEST_B}
WHERES = {'nex': W_NEX, 'nf1': W_NF1, 'odd': W_ODD, 'a2': W_A2}

CASES = {}
QUICK = []
THOROUGH = []


def _add(name, q, quick=False):
    assert name not in CASES, name
    CASES[name] = q
    THOROUGH.append(name)
    if quick:
        QUICK.append(name)


def _is_un(k):
    return k.startswith('un')


def _build():
    wkeys = [None, 'nex', 'nf1', 'odd', 'a2']
    n = 0
    # singles
    for k in ITEMS:
        for w in (None, wkeys[1 + n % 4]):
            _add('sel[%s|w=%s]' % (k, w), Q(items=[ITEMS[k]], where=WHERES.get(w)), quick=(k in ('a2', 'star', 'untail', 'cat') and w is not None) or (k in ('arr2', 'NF') and w is None))
            n += 1
    # ordered pairs (at most one UNNEST)
    for k1, k2 in itertools.product(ITEMS, repeat=2):
        if _is_un(k1) and _is_un(k2):
            continue
        w = wkeys[n % 5]
        n += 1
        quick = (k1, k2) in (('star', 'untail'), ('astar', 'unsplit'), ('a3', 'NR'), ('star', 'a1'), ('lits', 'astar'), ('unsplit', 'a2'), ('NR', 'untail'), ('len', 'star'), ('a1', 'a1'), ('unpair', 'NF'))
        _add('sel[%s,%s|w=%s]' % (k1, k2, w), Q(items=[ITEMS[k1], ITEMS[k2]], where=WHERES.get(w)), quick=quick)
    # triples: a covering set
    triples = [('a2', 'a1', 'NR'), ('star', 'lit7', 'a.*'), ('a1', 'unsplit', 'NF'), ('lits', 'a3', 'star'), ('cat1x', 'arr2', 'untail'), ('astar', 'star', 'a1'),
               ('NR', 'NF', 'len'), ('unnf', 'star', 'litd'), ('a3', 'astar', 'nr2'), ('lit7', 'lit7', 'unpair'), ('arr1', 'star', 'arr2'), ('cat', 'NR', 'astar')]
    for t in triples:
        t = tuple('astar' if x == 'a.*' else x for x in t)
        for w in (None, wkeys[1 + n % 4]):
            n += 1
            _add('sel[%s|w=%s]' % (','.join(t), w), Q(items=[ITEMS[x] for x in t], where=WHERES.get(w)), quick=(t[0] in ('a2', 'lits', 'unnf') and w is not None))
    # EXCEPT
    for nm, idx, txt in (('a2', [1], 'a2'), ('a1a3', [0, 2], 'a1, a3'), ('a3a1', [0, 2], 'a3,a1'), ('arr1', [0], 'a[1]'), ('a1a2a3', [0, 1, 2], 'a1, a2, a3'),
                         ('dup-a1a1a3', [0, 0, 2], 'a1, a[1], a3'), ('dup-a2a2', [1, 1], 'a2, a2'), ('dup-a3a1a1a2', [0, 0, 1, 2], 'a3, a1, a1, a2')):
        for w in (None, 'nf1', 'nex'):
            _add('except[%s|w=%s]' % (nm, w), Q(excpt=idx, excpt_text=txt, where=WHERES.get(w)), quick=(nm == 'a1a3' and w == 'nf1') or (nm == 'a2' and w is None) or (nm == 'dup-a1a1a3' and w is None))
    # JOIN members: inner / left join on a1 == b1 (int keys), select over a and b items
    jl = [('a1', 'b2'), ('star',), ('bstar', 'a2'), ('a2', 'bNR', 'NR'), ('b2', 'astar'), ('lit7', 'bstar', 'star'), ('unb', 'a1'), ('a2', 'unb')]
    for kind, kn in (('JOIN', 'inner'), ('LEFT JOIN', 'left')):
        for t in jl:
            for w in (None, 'b2x'):
                items = [ITEMS[x] if x in ITEMS else JITEMS[x] for x in t]
                _add('join_%s[%s|w=%s]' % (kn, ','.join(t), w), Q(items=items, join=join(kind), where=(W_B2 if w else None)),
                     quick=(t in (('a1', 'b2'), ('bstar', 'a2')) and w is None and kn == 'inner') or (t == ('star',) and kn == 'left' and w is None) or (t == ('unb', 'a1') and kn == 'inner' and w is None))


_build()

# shapes: rows as strings of cell codes (o = Optional[str])
RAGGED_S = ['cc', 'c', 'ccc']   # ragged, str cells only (UNNEST arguments call str methods)
SHAPES_QUICK = [['oo', 'o'], ['o', 'ooo', ''], ['ooo', 'so']]
SHAPES_ALL = [[], ['ooo'], [''], ['oo', 'o'], ['o', 'oo'], ['oo', 'oo'], ['', 'o'], ['ooo', 'o'], ['o', 'ooo', ''], ['oo', '', 'ooo'], ['o', 'o', 'o'], ['oo', 'o', 'oo'], ['ooo', 'oo', 'o']]
JSHAPES_QUICK = [(['ks', 'ks'], ['ks', 'ks'])]
JSHAPES_ALL = [(['ks', 'ks'], ['ks', 'ks']), (['ko'], ['ko', 'ko']), (['ks', 'k', 'ks'], ['ks']), ([], ['ks']), (['ks', 'ks'], []), (['ks'], ['ks', 'k', 'kss']), (['ks', 'ks'], ['k', 'kss'])]


def selfcheck():
    from vf.refmodel import relcheck
    return relcheck.check()


def obligations(tier, seed):
    obs = []
    if tier == 'quick':
        for i, name in enumerate(QUICK):
            q = CASES[name]
            if q.join is not None:
                a, b = JSHAPES_QUICK[0]
                obs.append(qh.query_obl('C01', name, q, a, b, krange=2, timeout=150, check_sources=True, mutate_output=True))
            else:
                obs.append(qh.query_obl('C01', name, q, SHAPES_QUICK[2] if name.startswith('except[dup') else (RAGGED_S if ('star' in name and 'un' in name) else SHAPES_QUICK[(i + seed) % 2]), timeout=150, check_sources=True, mutate_output=True))
        # star expansion of the LEFT JOIN null record: as wide as the WIDEST join record, which need not be the first one
        for name in ('join_left[bstar,a2|w=None]', 'join_left[lit7,bstar,star|w=None]'):
            obs.append(qh.query_obl('C01', name, CASES[name], ['ks', 'ks'], ['k', 'kss'], krange=2, timeout=150, check_sources=True, mutate_output=True, tag='#raggedB'))
        # seed-rotated sample of the thorough family (cheap shapes): successive quick runs sweep through it
        cheap = [['so', 's'], ['s', 'sos', ''], ['os', 'ss'], ['sss'], ['s', 's', 'so']]
        for i, name in enumerate(qh.rotating([n for n in THOROUGH if n not in QUICK], seed, 12)):
            q = CASES[name]
            if q.join is not None:
                a, b = JSHAPES_ALL[(i + seed) % 3]
                obs.append(qh.query_obl('C01', name, q, a, b, krange=2, timeout=150, check_sources=True, mutate_output=True, tag='~rot'))
            else:
                obs.append(qh.query_obl('C01', name, q, cheap[(i + seed) % len(cheap)], timeout=150, check_sources=True, mutate_output=True, tag='~rot'))
    else:
        for i, name in enumerate(THOROUGH):
            q = CASES[name]
            if q.join is not None:
                for j in range(2):
                    a, b = JSHAPES_ALL[(i + j * 3 + seed) % len(JSHAPES_ALL)]
                    obs.append(qh.query_obl('C01', name, q, a, b, krange=2, timeout=600, check_sources=True, mutate_output=True))
            else:
                for j in range(2):
                    obs.append(qh.query_obl('C01', name, q, SHAPES_ALL[(i * 2 + j + seed) % len(SHAPES_ALL)], timeout=400, check_sources=True, mutate_output=True))
    return obs
