"""C12 -- CSV reading depends only on content, never on how the stream is chunked.

Decided by CrossHair over the real rbql_csv.CSVRecordIterator (_read_until_found, _get_row_from_buffer incl. the CR look-ahead
read(1), get_row_simple, get_row_rfc, get_record, get_header, get_warnings) on a stub stream that delivers the text as
prescribed pieces: the pieces (text AND partition) are symbolic, chunk_size is concrete per shard; oracle = reference reader
applied to the concatenation (so chunked == whole == documented line/record rules).
"""
import itertools

from vf.engine import Obl
from vf.gen import harness, indent, str_params

INFO = {
    'explanation': 'Each obligation: for EVERY text cut into pieces of the stated lengths (any Unicode characters) the real reader, asked with the stated chunk size, '
                   'returns exactly the records, header, warnings or IO error that the reference reader derives from the concatenated text: LF/CR/CRLF line breaks '
                   '(CRLF split across reads is one break), unterminated last line, comment lines skipped, leading BOM dropped with a warning, quoted_rfc records '
                   'continued until quotes balance.',
    'bounds': 'texts of total length <= 3 (quick) / <= 5 (thorough) cut into 1-3 pieces of 0-2 (quick) / 0-3 characters; chunk sizes 1, 2, 3, 1024; policies quoted, quoted_rfc, simple, '
              'whitespace, monocolumn; comment prefix on/off; header on/off; encoding None / utf-8 / latin-1 (BOM branch)',
    'outside': 'byte-level partitions with SYMBOLIC content (io.TextIOWrapper is C: the byte shards use concrete multi-byte samples and symbolic cut positions); longer texts',
    'assumptions': ['encode_input_stream replaced by identity (text-level model); the stub stream never returns more than asked and returns "" only at EOF',
                    'reference reader validated concretely against 500k short texts during development (tools/dev_reader_diff.py) and against the repository test vectors'],
    'trusted': ['crosshair-tool 0.0.110', 'z3', 'CPython 3.12.1 re'],
}

CONFIGS = {
    'quoted': dict(dlm=',', policy='quoted', header=False, comment=None, enc=None),
    'quoted+hdr+bom': dict(dlm=',', policy='quoted', header=True, comment=None, enc='utf-8'),
    'rfc': dict(dlm=',', policy='quoted_rfc', header=False, comment=None, enc=None),
    'rfc+comment': dict(dlm=',', policy='quoted_rfc', header=False, comment='#', enc=None),
    'rfc+hdr': dict(dlm=';', policy='quoted_rfc', header=True, comment=None, enc=None),
    'simple+comment': dict(dlm='\t', policy='simple', header=False, comment='#', enc=None),
    'simple+bom': dict(dlm=',', policy='simple', header=False, comment=None, enc='utf-8'),
    'simple+latin1': dict(dlm=',', policy='simple', header=False, comment=None, enc='latin-1'),
    'whitespace+hdr': dict(dlm=' ', policy='whitespace', header=True, comment=None, enc=None),
    'monocolumn+comment2': dict(dlm='', policy='monocolumn', header=False, comment='//', enc=None),
    'quoted-space': dict(dlm=' ', policy='quoted', header=False, comment='#', enc='utf-8'),
}


def _obl(cfg_name, lens, chunk, timeout, prefix=''):
    c = CONFIGS[cfg_name]
    params, pre, exprs = [], [], []
    for i, l in enumerate(lens):
        p_, pre_, e_ = str_params('p%d' % i, l)
        params += p_
        pre += pre_
        exprs.append(e_)
    if not params:
        params, pre = [('dummy', 'int')], ['dummy == 0']
    body = indent('''
pieces = [PREFIX] + [%s]      # a concrete prefix (delivered according to the chunk size) followed by the symbolic pieces
got = csvh.read_all(pieces, ENC, DLM, POLICY, HEADER, COMMENT, CHUNK)
exp = csvref.expected_read(''.join(pieces), DLM, POLICY, HEADER, COMMENT, ENC)
return (got, exp)
''' % ', '.join(exprs))
    imports = 'from vf import csvh\nfrom vf.refmodel import csvref\nDLM = %r\nPOLICY = %r\nHEADER = %r\nCOMMENT = %r\nENC = %r\nCHUNK = %r\n' % (
        c['dlm'], c['policy'], c['header'], c['comment'], c['enc'], chunk) + 'PREFIX = %r\n' % prefix
    src = harness(imports, params, pre, body)
    name = 'read[%s|%spieces=%s|chunk=%d]' % (cfg_name, ('prefix=%s|' % prefix.encode('unicode_escape').decode()) if prefix else '', '+'.join(str(l) for l in lens), chunk)
    return Obl(name, src, timeout=timeout, meta={'function': 'rbql_csv.CSVRecordIterator', 'config': c, 'chunk_size': chunk,
                                                  'bounds': 'every text delivered as pieces of lengths %s (any Unicode)' % (lens,)})


BYTE_SAMPLES = {
    'e-acute': 'id,näme\n1,éa\n2,z\n',
    'euro-crlf': 'a,€\r\n€,"b\r\nc"\r\n',
    'emoji': '\U0001F600,x\n#\U0001F600\ny,é',
    'bom': '﻿h1,h2\né,2\n',
}


def _bytes_obl(sample, enc, policy, chunk, timeout, header=False, comment=None):
    """Byte-level partition through the REAL encode_input_stream / io.TextIOWrapper: content concrete, the two cut positions symbolic."""
    text = BYTE_SAMPLES[sample]
    data = text.encode('utf-8')
    n = len(data)
    body = indent("""
c1 = qh.concretize(k1, range(0, N + 1))
c2 = qh.concretize(k2, range(0, N + 1))
got = bytesh.read_bytes(bytesh.cut(DATA, c1, c2), ENC, ',', POLICY, HEADER, COMMENT, CHUNK)
exp = csvref.expected_read(DATA.decode(ENC), ',', POLICY, HEADER, COMMENT, ENC)
return (got, exp)
""")
    imports = 'from vf import bytesh, qh\nfrom vf.refmodel import csvref\nDATA = %r\nN = %d\nENC = %r\nPOLICY = %r\nHEADER = %r\nCOMMENT = %r\nCHUNK = %r\n' % (data, n, enc, policy, header, comment, chunk)
    src = harness(imports, [('k1', 'int'), ('k2', 'int')], ['0 <= k1 <= k2 <= %d' % n], body)
    return Obl('read_bytes[%s|%s|%s|chunk=%d]' % (sample, enc, policy, chunk), src, timeout=timeout,
               meta={'function': 'rbql_csv.encode_input_stream + CSVRecordIterator over a raw byte stream',
                     'bounds': 'concrete %d-byte sample %r, every partition into <= 3 raw reads (cut positions symbolic), chunk size %d' % (n, sample, chunk)})


def _partitions(total, maxpieces, maxlen):
    res = []
    for k in range(1, maxpieces + 1):
        for lens in itertools.product(range(0, maxlen + 1), repeat=k):
            if sum(lens) == total and (k == 1 or all(l > 0 for l in lens) or (k == 2 and lens in ((0, total), (total, 0)))):
                res.append(lens)
    return res


def obligations(tier, seed):
    obs = []
    names = list(CONFIGS)
    if tier == 'quick':
        parts = [(1, 2), (2, 1), (1, 1, 1), (2, 2), (3,), (0, 2), (2,), (1, 1)]
        chunks = [1024, 1, 2, 3]
        n = seed
        for ci, cfg in enumerate(names):
            for pi, lens in enumerate(parts):
                if sum(lens) > 3 and CONFIGS[cfg]['policy'] in ('quoted', 'quoted_rfc'):
                    continue
                # every config sees every partition of length <= 3; chunk size rotates
                chunk = chunks[(ci + pi + n) % len(chunks)]
                obs.append(_obl(cfg, lens, chunk, 200))
        # longer structures: a concrete prefix (comment lines, blank lines, an open rfc record) followed by symbolic text
        for cfg, prefix in (('quoted-space', '#\n#\n'), ('rfc+comment', '#\n#x\n'), ('simple+comment', '#\n\n#\n'), ('rfc', '"a\n'), ('quoted+hdr+bom', '\ufeffh\n\n'), ('monocolumn+comment2', '//\n/\n')):
            for chunk in (1, 1024):
                obs.append(_obl(cfg, (1,), chunk, 200, prefix=prefix))
                obs.append(_obl(cfg, (1, 1), chunk, 200, prefix=prefix))
        # a continuation line of an open rfc record that starts with the comment prefix, cut so that a read leaves a residual '#'
        for prefix, chunk in (('"\n#aa', 3), ('x\n"\n#b', 4), ('"\n#aa', 2)):
            obs.append(_obl('rfc+comment', (1,), chunk, 200, prefix=prefix))
            obs.append(_obl('rfc+comment', (1, 1), chunk, 200, prefix=prefix))
        # byte-level partitions of multi-byte samples through the real decoding layer
        for smp, pol, chunk in (('e-acute', 'quoted', 1), ('euro-crlf', 'quoted_rfc', 2), ('bom', 'quoted', 1024), ('emoji', 'simple', 3)):
            obs.append(_bytes_obl(smp, 'utf-8', pol, chunk, 300, header=(smp == 'bom'), comment=('#' if smp == 'emoji' else None)))
        obs.append(_bytes_obl('e-acute', 'latin-1', 'quoted', 1, 300))
    else:
        for smp in BYTE_SAMPLES:
            for pol in ('quoted', 'quoted_rfc', 'simple'):
                for chunk in (1, 2, 3, 4, 1024):
                    obs.append(_bytes_obl(smp, 'utf-8', pol, chunk, 900, header=(smp == 'bom'), comment=('#' if smp == 'emoji' else None)))
            obs.append(_bytes_obl(smp, 'latin-1', 'quoted', 1, 900))
        for cfg, prefix in (('quoted-space', '#\n#\n'), ('rfc+comment', '#\n#x\n'), ('simple+comment', '#\n\n#\n'), ('rfc', '"a\n'), ('quoted+hdr+bom', '\ufeffh\n\n'), ('monocolumn+comment2', '//\n/\n'),
                            ('rfc+comment', '"\n#\n'), ('rfc+comment', '"\n#aa'), ('rfc+comment', 'x\n"\n#b'), ('quoted', 'a,b\r\n'), ('rfc+hdr', 'h;"\r\n";2\r')):
            for chunk in (1, 2, 3, 4, 1024):
                for lens in ((1,), (2,), (1, 1), (2, 1), (1, 2), (3,)):
                    obs.append(_obl(cfg, lens, chunk, 1200, prefix=prefix))
        for cfg in names:
            heavy = CONFIGS[cfg]['policy'] in ('quoted', 'quoted_rfc')
            for total in range(0, 5 if heavy else 6):
                for lens in _partitions(total, 3, 3):
                    for chunk in ((1024, 1) if total >= 4 else (1024, 1, 2, 3)):
                        if chunk in (2, 3) and max(lens) <= chunk and len(lens) > 1:
                            continue  # same schedule as chunk 1024
                        obs.append(_obl(cfg, lens, chunk, 1200))
    return obs
