"""C16 -- Queries are isolated: consecutive and interleaved runs do not interfere (claimed: histories + nested-execution schedules).

Histories: a probe query on a symbolic table is run fresh, then a history of up to 3 other queries is run -- each chosen by a SYMBOLIC
selector from a scenario list (aggregate, UNNEST, LIKE, DISTINCT COUNT, JOIN, parse error, runtime error mid-table, debug mode toggled
and restored) -- then the probe runs again: both probe results must equal the reference semantics.
Schedules: query A runs over an iterator / writer whose k-th get_record / write call (k symbolic) first runs a second query B to completion
on its own symbolic table (and, one level deeper, B's j-th step runs a third query): A's and B's results must equal their solo reference
results.  This covers exactly the interleavings in which the other query's steps between two steps of A form complete runs.
Not claimed: arbitrary preemptive interleavings of two partially executed queries in different threads (CrossHair executes one thread).
"""
from vf import qh
from vf.engine import Obl
from vf.gen import harness, indent
from vf.qlib import *  # noqa
from vf.refmodel import rel

INFO = {
    'explanation': 'History obligations: for EVERY history (symbolic selectors over 20 scenarios + "nothing") and every table the probe result is unchanged. '
                   'Schedule obligations: for EVERY step index k (and j) and every pair of tables both queries return their solo results.',
    'bounds': 'histories of <= 3 queries over 20 scenarios; tables of 2-3 int rows; nested depth <= 3; probe / A / B query kinds: aggregate, unnest, like, distinct count, join, sorted, update, erroring',
    'outside': 'preemptive thread interleavings at arbitrary byte-code boundaries (a suspended second stack is not expressible in CrossHair): NOT claimed',
    'assumptions': ['module-level state of rbql_engine is what the interpreter holds after import (fresh) at the start of every explored path'],
    'trusted': ['crosshair-tool 0.0.110', 'z3', 'CPython 3.12.1'],
}

A2 = lambda e: e.a(2)  # noqa
CASES = {
    'agg': Q(items=[fa(1), agg('SUM', 'a2', A2), Item('COUNT(*)', lambda e: 1, kind='agg', agg='COUNT')], group=[('a1', lambda e: e.a(1))]),
    'unnest': Q(items=[NR, Item('unnest([a1, a2])', lambda e: [e.a(1), e.a(2)], kind='unnest')]),
    'like': Q(items=[Item("like(str(a1), '1%')", lambda e: str(e.a(1)).startswith('1')), fa(2)]),
    'dcount': Q(items=[fa(1)], distinct='count'),
    'sorted': Q(items=[fa(2), fa(1)], order=[('a2', A2)], desc=True, order_suffix='desc'),
    'update': Q(update=[('a2', 1, 'a1', lambda e: e.a(1))], where=('a1 != a2', lambda e: e.a(1) != e.a(2))),
    'divide': Q(items=[Item('10 // a1', lambda e: 10 // e.a(1)), fa(2)]),
    'top': Q(items=[fa(1)], top=1),
    'minmax': Q(items=[agg('MIN', 'a1', lambda e: e.a(1), 'min'), agg('MAX', 'a2', A2, 'max'), Item('max(a1, a2)', lambda e: max(e.a(1), e.a(2)))], group=[('max(a1, a2)', lambda e: max(e.a(1), e.a(2)))]),
    'join': Q(items=[fa(1), fb(2)], join=join('JOIN')),
    'avgstr': Q(items=[agg('AVG', 'a2', A2), agg('VARIANCE', 'a2', A2, 'variance'), agg('MIN', 'a2', A2, 'Min'), agg('SUM', 'a2', A2, 'Sum'), agg('MEDIAN', 'a2', A2, 'median'), agg('MAX', 'a2', A2)]),
    'named-lit': Q(items=[sub('k'), fa(2), NR], ha=['k', 'v']),
    'named': Q(items=[attr('v'), sub('k'), NR], where=("a.v != 1", lambda e: e.an('v') != 1), ha=['k', 'v']),
    'named-swapped': Q(items=[attr('v'), sub('k'), NR], where=("a.v != 1", lambda e: e.an('v') != 1), ha=['v', 'k']),
    'named-update': Q(update=[('a.v', 1, 'a.k', lambda e: e.an('k'))], ha=['k', 'v']),
    'named-missing': Q(items=[sub('x'), fa(1)], ha=['k', 'v']),      # a["x"] over a header WITHOUT a column x: fails, whatever ran before
    'named-update-swapped': Q(update=[('a.v', 0, 'a.k', lambda e: e.an('k'))], ha=['v', 'k']),
}
TEXT = {k: rel.render(v) for k, v in CASES.items()}

HIST_SRC = '''
from vf import qh
from vf.refmodel import rel
from vf.props import c16 as P


def run(name, T, B=None):
    return qh.run_pair(P.CASES[name], P.TEXT[name], qh.copy_table(T), qh.copy_table(B))


def scenario(i, T, PT=None):
    """History step i (0 = nothing).  Results are discarded: only their side effects on the interpreter matter."""
    if i == 1:
        run('agg', T)
    elif i == 2:
        run('unnest', T)
    elif i == 3:
        run('like', T)
    elif i == 4:
        run('dcount', T)
    elif i == 5:
        run('join', T, [[0, 5], [1, 6]])
    elif i == 6:
        qh.run_rbql('select a1 where a2 = 3', qh.copy_table(T))          # parse error
    elif i == 7:
        qh.run_rbql('select 10 // (NR - 2), MAX(a1)', qh.copy_table(T))  # runtime error mid-table while an aggregate is being set up
    elif i == 8:
        rbql_engine.set_debug_mode(True)
        try:
            qh.run_rbql('select 10 // a1', qh.copy_table(T))
        except Exception:  # noqa  (debug mode re-raises the raw exception)
            pass
        rbql_engine.set_debug_mode(False)
    elif i == 9:
        qh.run_rbql('select unnest([1, 2]), unnest([3])', qh.copy_table(T))  # double UNNEST error
    elif i == 15:
        qh.run_rbql('select AVG(a2), VARIANCE(a1), MEDIAN(a2), SUM(a1), MIN(a2), MAX(a1)', qh.copy_table(T))    # numeric aggregates over NON-string cells
    elif i == 16:
        qh.run_rbql('select a["v"], a2, NR', qh.copy_table(T), None, ['k', 'v'])   # same select list as probe `named-lit` up to the CONTENT of a string literal
    elif i == 17:
        qh.run_rbql('update set a2 = 5, a1 = a2', PT)        # an UPDATE over the very table OBJECT the probe reads afterwards (no copy)
        qh.run_rbql('update set a1 = 10 // (NR - 2)', PT)    # ... and one that fails half way
    elif i == 18:
        qh.run_rbql('select a["x"], a.y, a2', [[5, 7], [6, 8]], None, ['x', 'y'])   # a table that HAS a column x, read through a["x"]
        qh.run_rbql('select a1, b["x"] join b on a1 == b1', [[5, 7], [6, 8]], [[5, 1], [6, 2]], ['p', 'q'], ['o', 'x'])
    elif i == 19:
        qh.run_rbql('select a1, b2 join b on a1 == b1', qh.copy_table(T), [[0, 5], [1, 6, 9], [2]])   # uniform input, RAGGED join table: a warning of this query only
    elif i == 20:
        qh.run_rbql('select a1', [[1, 2], [0]])                                                      # ragged input: a warning of this query only
        qh.run_rbql('select a1, None', [[1, 2], [0, 3]])
    elif i == 13:
        qh.run_rbql('select a1, 10 // (NR - 2) order by a1', qh.copy_table(T))       # ORDER BY query failing after it has buffered a record
    elif i == 14:
        qh.run_rbql('select distinct count a1, 10 // (NR - 3)', qh.copy_table(T))    # DISTINCT COUNT query failing after buffering
    elif i == 10:
        run('named-swapped', T)       # the SAME query text as probe `named`, over a header with the columns in another order
    elif i == 11:
        run('named-update-swapped', T)
    elif i == 12:
        qh.run_rbql(P.TEXT['named'], [[1, 'x'], [2, 'y']], None, ['v', 'k'])   # same text again, failing at run time (str != int is fine, 'x' has no ...)
        qh.run_rbql('select a.v // 0, a["k"]', qh.copy_table(T), None, ['v', 'k'])
'''


def _history_obl(probe, rows, timeout, nsel=3, first=None, probe_first=True, last_domain=None):
    if probe == 'avgstr':
        # numeric STRING cells ('7', or the non-numeric 'x', chosen by a symbolic bool): float results are concrete per path
        pa, pb, po, texpr = qh.table_params('a', ['kp'] * (rows - 1), krange=3)
        texpr = texpr[:-1] + (', ' if rows > 1 else '') + "[1, '3'], [0, '4']]"
    else:
        pa, pb, po, texpr = qh.table_params('a', ['kk'] * (rows - 1), krange=3)
        texpr = texpr[:-1] + (', ' if rows > 1 else '') + '[1, 0]]'
    sels = [('h%d' % i, 'int') for i in range(nsel)]
    body = indent('''
T = %s
B = [[0, 7], [1, 8], [1, 9]] if PROBE == 'join' else None
# PROBE_FIRST: [probe, history, probe] ; otherwise [history, probe] (the history is then the very first use of the engine in this interpreter)
snap = qh.copy_table(T)
g0, e0 = run(PROBE, T, B) if PROBE_FIRST else (None, None)
HT = [[1, 2], [0, 2], [1, 0]]     # history queries run on a fixed table: only their effect on interpreter state matters
for h in [%s]:
    scenario(h, HT, T)
# the probe reads T as it is NOW; the expectation is computed from the snapshot taken before the history
q = P.CASES[PROBE]
exp = rel.run(q, qh.copy_table(snap), qh.copy_table(B))
got = qh.run_rbql(P.TEXT[PROBE], qh.copy_table(T), qh.copy_table(B), q.ha, q.hb)
g1, e1 = qh.normalise(got, exp)
return ((g0, g1), (e0, e1))
''' % (texpr, ', '.join(n for n, _t in sels)))
    selpre = ['0 <= %s <= 20' % n for n, _t in sels]
    if first is not None:
        selpre[0] = 'h0 == %d' % first
    if last_domain is not None:
        selpre[-1] = 'h%d in %r' % (nsel - 1, tuple(last_domain))   # the last step ranges over a rotating sub-family (keeps a 3-step shard within its time budget)
    src = harness('PROBE = %r\nPROBE_FIRST = %r\n' % (probe, probe_first), sels + pa, selpre + pb + po, body, extra_defs=HIST_SRC)
    return Obl('history[probe=%s,rows=%d,len=%d%s%s]' % (probe, rows, nsel, (',first=%d' % first) if first is not None else '', ('' if probe_first else ',history-first') + ((',last=' + ('/'.join(map(str, last_domain)) if len(last_domain) <= 6 else ('even' if 2 in last_domain else 'odd'))) if last_domain is not None else '')), src, timeout=timeout,
               meta={'query': TEXT[probe], 'bounds': 'every history of %d steps over 20 scenarios (+ nothing)%s x every %d-row table of ints 0..2' % (nsel, (' -- last step restricted to %r' % (tuple(last_domain),)) if last_domain is not None else '', rows)})


SCHED_SRC = HIST_SRC + '''

class HookIterator(rbql_engine.TableIterator):
    """TableIterator whose k-th get_record() first runs `action`."""
    def __init__(self, table, k, action):
        rbql_engine.TableIterator.__init__(self, table)
        self.k = k
        self.action = action
        self.calls = 0
    def get_record(self):
        if self.calls == self.k:
            self.action()
        self.calls += 1
        return rbql_engine.TableIterator.get_record(self)


class HookWriter(rbql_engine.TableWriter):
    """TableWriter whose k-th write() / finish() step first runs `action`."""
    def __init__(self, out, k, action):
        rbql_engine.TableWriter.__init__(self, out)
        self.k = k
        self.action = action
        self.steps = 0
    def write(self, fields):
        if self.steps == self.k:
            self.action()
        self.steps += 1
        return rbql_engine.TableWriter.write(self, fields)
    def finish(self):
        if self.steps <= self.k:
            self.action()
        self.steps += 1


def run_hooked(name, T, k, action, where):
    """Query `name` on T with `action` injected at step k of its iterator ('read') or writer ('write').  -> normalised (got, expected)"""
    q = P.CASES[name]
    exp = rel.run(q, qh.copy_table(T), None)
    out, warnings = [], []
    it = HookIterator(T, k, action) if where == 'read' else rbql_engine.TableIterator(T)
    w = HookWriter(out, k, action) if where == 'write' else rbql_engine.TableWriter(out)
    try:
        rbql_engine.query(P.TEXT[name], it, w, warnings)
        got = ('ok', out, w.header, warnings)
    except (rbql_engine.RbqlRuntimeError, rbql_engine.RbqlParsingError, rbql_engine.RbqlIOHandlingError) as e:
        got = ('err', type(e).__name__, e.args[0] if e.args else '', out)
    return qh.normalise(got, exp)
'''


def _schedule_obl(a, b, where, rows, timeout, depth=2, c=None):
    pa, pb, po, texpr = qh.table_params('a', ['kk'] * (rows - 1), krange=3)
    texpr = texpr[:-1] + (', ' if rows > 1 else '') + '[1, 0]]'
    p2, pb2, po2, uexpr = qh.table_params('u', ['kk'], krange=3)
    uexpr = uexpr[:-1] + ', [0, 2]]'
    params = [('k', 'int')] + ([('j', 'int')] if depth == 3 else []) + pa + p2
    body = indent('''
TA = %s
TB = %s
inner = []

def run_c():
    inner.append(run(C_NAME, TB))

def run_b():
    if DEPTH == 3:
        inner.append(run_hooked(B_NAME, qh.copy_table(TB), j, run_c, 'read'))
    else:
        inner.append(run(B_NAME, TB))

ga, ea = run_hooked(A_NAME, qh.copy_table(TA), k, run_b, WHERE)
return ((ga, [g for g, _e in inner]), (ea, [e for _g, e in inner]))
''' % (texpr, uexpr))
    imports = 'A_NAME = %r\nB_NAME = %r\nC_NAME = %r\nWHERE = %r\nDEPTH = %r\n' % (a, b, c, where, depth)
    pre = ['0 <= k <= %d' % (rows + 2)] + (['0 <= j <= 3'] if depth == 3 else []) + pb + pb2 + po + po2
    src = harness(imports, params, pre, body, extra_defs=SCHED_SRC)
    return Obl('schedule[A=%s,B=%s%s,at=%s,rows=%d]' % (a, b, (',C=' + c) if depth == 3 else '', where, rows), src, timeout=timeout,
               meta={'query': TEXT[a], 'other_query': TEXT[b], 'bounds': 'every step index k in 0..%d%s x every pair of int tables (A %d rows, B 2 rows)' % (rows + 2, ' and j in 0..3' if depth == 3 else '', rows)})


def selfcheck():
    from vf.refmodel import relcheck
    return relcheck.check()


def obligations(tier, seed):
    obs = []
    quick = tier == 'quick'
    t = 200 if quick else 1200
    probes = ['agg', 'unnest', 'like', 'dcount', 'divide', 'minmax', 'top', 'join', 'sorted', 'avgstr'] if quick else [c for c in CASES if not c.endswith('-swapped')]
    probes = probes + [x for x in ('named', 'named-update', 'named-lit', 'named-missing') if x not in probes]
    for pi, p in enumerate(probes):
        for first in range(1, 21):
            if p.startswith('named') and first not in (10, 11, 12, 1, 7, 16, 18, 19):
                continue
            if (first == 18) != (p == 'named-missing') and (first == 18 or p == 'named-missing') and not (p == 'named-missing' and first in (1, 16)):
                continue
            if first in (19, 20) and p not in ('agg', 'join', 'top', 'named', 'sorted', 'update', 'dcount'):
                continue
            if not p.startswith('named') and first in (10, 11, 12):
                continue
            if first in (13, 14) and p not in ('sorted', 'dcount', 'agg', 'top'):
                continue
            if (first == 16) != (p == 'named-lit') and (first == 16 or p == 'named-lit') and not (p == 'named-lit' and first in (1, 10)):
                continue
            if first == 17 and p not in ('agg', 'sorted', 'update', 'unnest'):
                continue
            if (first == 15) != (p == 'avgstr') and (first == 15 or p == 'avgstr') and not (p == 'avgstr' and first in (1, 7)):
                continue
            if quick and (first + pi + seed) % 3 != 0 and not p.startswith('named') and first not in (13, 14, 15, 16, 17) and not (first in (19, 20) and p in ('agg', 'join', 'top')):
                continue
            pf = not p.startswith('named') and p != 'avgstr' and first not in (13, 14) and (first + pi) % 2 == 0
            # quick: the free second step ranges over a seed-rotated half of the scenario alphabet (the whole alphabet in thorough)
            half = ([0] + [x for x in range(1, 21) if (x + pi + seed) % 2 == 0]) if quick else None
            obs.append(_history_obl(p, 2, t, nsel=2, first=first, probe_first=pf, last_domain=half))
            if not quick:
                if (first + pi + seed) % 3 == 0:
                    obs.append(_history_obl(p, 2, t, nsel=2, first=first, probe_first=not pf))
                if (first + pi + seed) % 8 == 0:
                    # three steps: first pinned, second free over all 20 scenarios, third over a rotating seventh of them
                    # (sized from a measured run: a 3-step shard with 5 values in the last step took ~950 s, a 2-step shard ~150 s, on a loaded machine)
                    k = (first + 2 * pi + seed) % 7
                    obs.append(_history_obl(p, 2, t, nsel=3, first=first, probe_first=pf, last_domain=[0] + [x for x in range(1, 21) if x % 7 == k]))
    kinds = ['agg', 'unnest', 'like', 'dcount', 'sorted', 'update', 'divide', 'top', 'minmax']
    pairs = []
    for i, a in enumerate(kinds):
        for jx, b in enumerate(kinds):
            if quick and (i * 3 + jx + seed) % 5 != 0 and not (a == b and a in ('agg', 'unnest', 'sorted', 'dcount')):
                continue
            pairs.append((a, b))
    for idx, (a, b) in enumerate(pairs):
        obs.append(_schedule_obl(a, b, 'read' if idx % 2 == 0 else 'write', 2, t))
        if not quick:
            obs.append(_schedule_obl(a, b, 'write' if idx % 2 == 0 else 'read', 2 if idx % 3 else 3, t))
    for a, b, c in ([('agg', 'unnest', 'agg'), ('like', 'agg', 'like')] if quick else [('agg', 'unnest', 'agg'), ('like', 'agg', 'like'), ('unnest', 'unnest', 'unnest'), ('dcount', 'minmax', 'divide'), ('minmax', 'agg', 'minmax')]):
        obs.append(_schedule_obl(a, b, 'read', 2, t, depth=3, c=c))
    return obs
