"""C20 -- The JavaScript stream reader is independent of chunk boundaries.

Engine E2: the real rbql-js reader methods (process_data_stream_chunk, process_data_stream_end, process_line, process_record_line[_simple],
process_partial_rfc_record_line, process_data_bulk, get_warnings, MultilineRecordAggregator, RecordQueue) lowered from ESTree to Python on
every run and driven on an object constructed directly (no streams, no promises): the BYTES are symbolic ints (per shard: a byte-structure
pattern such as ascii / 2-byte / 3-byte / 4-byte UTF-8 sequences, each byte ranging over its whole class), the partition into chunks is
concrete per shard (every cut inside CRLF pairs and inside multi-byte characters is a shard).  Oracle: the lowered bulk path on the
concatenation.  Buffer / util.TextDecoder are pure-Python stubs written from the WHATWG / Node contract and validated against real node on
every run; every counterexample is replayed in REAL node through the public async API over a stream.Readable emitting exactly those Buffers.
"""
import itertools

from vf.engine import Obl
from vf.gen import harness, indent

INFO = {
    'explanation': 'Each obligation: for EVERY byte string matching the shard\'s structure pattern, delivering it in the shard\'s chunks gives the records, warnings and error of bulk reading; '
                   'valid UTF-8 is never rejected.',
    'bounds': 'inputs of <= 4 (quick) / <= 6 (thorough) bytes built from 1-, 2-, 3- and 4-byte UTF-8 characters and (binary shards) arbitrary bytes; every partition into <= 3 chunks; '
              'policies quoted, quoted_rfc, simple; comment prefix on/off; utf-8 and binary (latin-1) encodings',
    'outside': 'the 64 KiB default chunk size (irrelevant once boundaries are explicit); back-pressure, pause / resume, the promise queue (async plumbing is not lowered); astral characters count as one '
               'character in the lowered strings (two UTF-16 units in JS) -- no reader logic depends on it, and counterexamples are replayed in real node',
    'assumptions': ['TextDecoder / Buffer stubs follow the WHATWG contract (validated per run against real node incl. invalid sequences and BOMs)', 'ESTree->Python lowering preserves JS semantics for the subset (validated per run)'],
    'trusted': ['crosshair-tool 0.0.110', 'z3', 'node 20 + acorn (parsing, validation and replay)', 'vf/jslower'],
}

# byte classes: name -> (low, high) inclusive
CLS = {
    'A': (0x00, 0x7F),      # ascii (covers quote, comma, CR, LF, #, space and ordinary characters)
    'L2': (0xC2, 0xDF), 'C': (0x80, 0xBF),
    'L3': (0xE1, 0xEC), 'E0': (0xE0, 0xE0), 'C_E0': (0xA0, 0xBF), 'ED': (0xED, 0xED), 'C_ED': (0x80, 0x9F), 'EF': (0xEE, 0xEF),
    'L4': (0xF1, 0xF3), 'F0': (0xF0, 0xF0), 'C_F0': (0x90, 0xBF), 'F4': (0xF4, 0xF4), 'C_F4': (0x80, 0x8F),
    'ANY': (0x00, 0xFF),
    'CR': (13, 13), 'LF': (10, 10),
}
CHARS = {
    '1': ['A'], '2': ['L2', 'C'], '3': ['L3', 'C', 'C'], '3e0': ['E0', 'C_E0', 'C'], '3ed': ['ED', 'C_ED', 'C'], '3ef': ['EF', 'C', 'C'],
    '4': ['L4', 'C', 'C', 'C'], 'L2only': ['L2'], '4f0': ['F0', 'C_F0', 'C', 'C'], '4f4': ['F4', 'C_F4', 'C', 'C'], 'cr': ['CR'], 'lf': ['LF'], 'x': ['ANY'],
}

PRELUDE = '''
from vf.jslower import build as _jsb
from vf.jslower import jsrt
jsc = _jsb._load('js_rbql_csv', _jsb.path_of('js_rbql_csv'))


def bulk(data, enc, dlm, policy, comment):
    it = jsc.CSVRecordIterator(None, '/dev/null', enc, dlm, policy, False, comment)
    it.started = True
    it.process_data_bulk(jsrt.Buffer(data))
    return _jsb._result_of(jsc, it)


def norm(r):
    return ('ok', r[1], sorted(r[2])) if r[0] == 'ok' else r


def node_check(*bs):
    """Replay in REAL node: public async API over a stream.Readable emitting exactly these Buffers vs bulk reading of the same bytes."""
    data = [int(b) for b in bs]
    chunks = [data[BOUNDS[k]:BOUNDS[k + 1]] for k in range(len(BOUNDS) - 1)]
    base = {'encoding': ENC, 'delim': DLM, 'policy': POLICY, 'comment_prefix': COMMENT}
    res = _jsb.node_reader([dict(base, mode='api', chunks=chunks), dict(base, mode='bulk', chunks=[data])])
    a, b = _jsb._norm_node(res[0]), _jsb._norm_node(res[1])
    return (a != b, {'node_stream': repr(a)[:300], 'node_bulk': repr(b)[:300]})
'''


def selfcheck():
    from vf.jslower import build
    try:
        return build.validate_all()
    except Exception as e:  # noqa
        return 'lowering failed: %r' % (e,)


def _obl(pattern, cuts, enc, dlm, policy, comment, timeout, expect='hold', finding=None, tag='', extra_pre=None):
    """pattern: list of char kinds (keys of CHARS); cuts: sorted byte offsets where a new chunk starts."""
    classes = []
    for ch in pattern:
        classes += CHARS[ch]
    n = len(classes)
    params = [('b%d' % i, 'int') for i in range(n)]
    pre = ['%d <= b%d <= %d' % (CLS[c][0], i, CLS[c][1]) for i, c in enumerate(classes)] + list(extra_pre or [])
    if not params:
        params, pre = [('dummy', 'int')], ['dummy == 0']
    bounds = [0] + list(cuts) + [n]
    chunk_exprs = ['[' + ', '.join('b%d' % i for i in range(bounds[k], bounds[k + 1])) + ']' for k in range(len(bounds) - 1)]
    body = indent('''
chunks = [%s]
data = []
for c in chunks:
    data = data + c
exp = norm(bulk(data, ENC, DLM, POLICY, COMMENT))
got = norm(jsc.read_stream_chunks([jsrt.Buffer(c) for c in chunks], ENC, DLM, POLICY, COMMENT))
return (got, exp)
''' % ', '.join(chunk_exprs))
    imports = 'ENC = %r\nDLM = %r\nPOLICY = %r\nCOMMENT = %r\nBOUNDS = %r\n' % (enc, dlm, policy, comment, bounds)
    src = harness(imports, params, pre, body, extra_defs=PRELUDE)
    name = 'stream_vs_bulk[%s|cuts=%s|%s,%s,comment=%r]%s' % ('.'.join(pattern) or 'empty', ','.join(map(str, cuts)) or '-', enc, policy, comment, tag)
    return Obl(name, src, timeout=timeout, expect=expect, finding=finding,
               meta={'function': 'rbql_csv.js CSVRecordIterator.process_data_stream_chunk/_end vs process_data_bulk (lowered)', 'pattern': pattern, 'cuts': list(cuts),
                     'node_replay': {'encoding': enc, 'delim': dlm, 'policy': policy, 'comment_prefix': comment, 'bounds': bounds},
                     'bounds': 'every byte string of structure %s (classes %s), chunks starting at offsets %s' % (pattern, classes, list(cuts))})


def _all_cuts(n, maxcuts=2):
    res = [()]
    for k in range(1, maxcuts + 1):
        res += list(itertools.combinations(range(1, n), k))
    return res


def obligations(tier, seed):
    obs = []
    quick = tier == 'quick'
    t = 200 if quick else 1200
    cfgs = [('utf-8', ',', 'quoted', None), ('utf-8', ',', 'quoted_rfc', '#'), ('binary', ',', 'quoted', '#'), ('utf-8', '\t', 'simple', None), ('binary', ',', 'quoted_rfc', None)]
    # ASCII-only structure: every partition (CRLF splits are among them because each ascii byte ranges over CR / LF too)
    ascii_lens = (1, 2, 3) if quick else (1, 2, 3, 4)     # 5 ascii bytes x 3 chunks did not finish in the sizing run (~0.6 s per path in lowered code)
    n = seed
    for ci, (enc, dlm, policy, comment) in enumerate(cfgs):
        for L in ascii_lens:
            if quick and L == 3 and ci not in (0, 1):
                continue
            if L == 4 and ci not in (0, 1, 2):
                continue
            pat = ['x' if enc == 'binary' else '1'] * L
            for cuts in _all_cuts(L):
                if quick and len(cuts) == 2 and (n + ci) % 2:
                    n += 1
                    continue
                n += 1
                if not cuts:
                    continue   # single chunk == bulk by construction of the driver; kept in thorough as a sanity shard
                obs.append(_obl(pat, cuts, enc, dlm, policy, comment, t))
    # pinned CRLF across a boundary with symbolic neighbours
    for enc, dlm, policy, comment in cfgs[:3]:
        obs.append(_obl(['1', 'cr', 'lf', '1'] if enc != 'binary' else ['x', 'cr', 'lf', 'x'], (2,), enc, dlm, policy, comment, t, tag='#crlf-split'))
        obs.append(_obl(['cr', 'lf', '1'] if enc != 'binary' else ['cr', 'lf', 'x'], (1,), enc, dlm, policy, comment, t, tag='#crlf-split-first'))
    # multi-byte characters: boundaries outside the characters must hold ...
    mb = [(['1', '2', '1'], [(1,), (3,), (1, 3)]), (['3', '1'], [(3,)]), (['1', '4'], [(1,)]), (['2', '2'], [(2,)]), (['1', '3ef', '1'], [(1, 4)])]
    for pat, cutlist in (mb if not quick else mb[:3]):
        for cuts in cutlist:
            obs.append(_obl(pat, cuts, 'utf-8', ',', 'quoted', None, t, tag='#char-boundary'))
    # ... and boundaries INSIDE a multi-byte character (rejected before the fix recorded in known_findings.json: "fixed: property=C20 ...")
    inside = [(['1', '2', '1'], (2,)), (['3', '1'], (1,)), (['3', '1'], (2,)), (['1', '4'], (2,)), (['1', '4'], (3,)), (['2', '2'], (1,)), (['2', '2'], (3,)), (['3ef'], (1,))]
    for pat, cuts in (inside if not quick else inside[:4]):
        obs.append(_obl(pat, cuts, 'utf-8', ',', 'quoted', None, t, tag='#inside-char'))
    # BOM (the class EE..EF / 80..BF / 80..BF contains EF BB BF): same warning in stream and bulk mode, also when the BOM itself is split
    obs.append(_obl(['3ef', '1'], (), 'utf-8', ',', 'quoted', None, t, tag='#bom-class'))
    obs.append(_obl(['3ef', '1'], (1,), 'utf-8', ',', 'quoted', None, t, tag='#bom-class'))
    obs.append(_obl(['3ef', '1', 'lf', '1'], (2,), 'utf-8', ',', 'quoted_rfc', '#', t, tag='#bom-class'))
    # truncated sequences at the end of input and stray continuation bytes: both modes must reject
    obs.append(_obl(['1', 'L2only'], (1,), 'utf-8', ',', 'quoted', None, t, tag='#truncated'))
    obs.append(_obl(['x', 'x'], (1,), 'utf-8', ',', 'simple', None, t, tag='#any-bytes'))
    if not quick:
        obs.append(_obl(['x', 'x', 'x'], (1, 2), 'utf-8', ',', 'quoted', None, t, tag='#any-bytes'))
        obs.append(_obl(['x', 'x', 'x'], (2,), 'utf-8', ',', 'quoted', None, t, tag='#any-bytes'))
    # binary shards with the BOM bytes present must agree (BOM handled by remove_utf8_bom on both paths)
    obs.append(_obl(['x', 'x', 'x'], (2,), 'binary', ',', 'quoted', None, t, tag='#binary-any'))
    if not quick:
        obs.append(_obl(['x', 'x', 'x', 'x'], (2,), 'binary', ',', 'quoted', None, t, tag='#binary-any'))
    return obs
