"""C03 -- Aggregates / GROUP BY: one exact result row per group, in key order.

Decided by CrossHair over the real rbql_engine.query_table (select_aggregated, aggregator classes, NumHandler, AggregateWriter,
mad_max/min/sum, replace_star_count): concrete query family, symbolic int / digit-string cells; oracle = reference interpreter.
Float-valued results (AVG, VARIANCE, even-length MEDIAN) are decided in two parts: exact accumulator-state lemmas (CrossHair)
and the finaliser formula lowered from the source AST to z3 real arithmetic (vf/astsmt.py); the end-to-end float equality is
bug-hunting only (CrossHair cannot confirm IEEE division) and is reported as such.
"""
from vf import qh
from vf.engine import Obl
from vf.gen import harness, indent
from vf.qlib import *  # noqa

INFO = {
    'explanation': 'Each obligation: for EVERY table of the stated shape, query_table(<aggregate query>) returns exactly one row per distinct key among '
                   'the rows passing WHERE, in ascending key order, with each aggregate equal to its mathematical definition (reference interpreter); '
                   'non-constant plain columns raise; lower-case min/max/sum with several arguments / an iterable keep the builtin meaning; '
                   'ORDER BY / DISTINCT with aggregates are rejected.  AVG/VARIANCE: accumulator state after <=3 increments is the exact integer tuple.',
    'bounds': 'tables <= 4 rows (quick 3); group key cells ints (or ints in 0..1 where RBQL embeds the value in a message); value cells unbounded ints or 1-2 digit strings; 1-2 group keys',
    'outside': 'float and mixed int/float cells; numeric strings with sign/exponent/underscore; IEEE rounding of AVG/VARIANCE/even MEDIAN (finaliser proved over reals only); JS twin',
    'assumptions': ['CrossHair models of int()/sorted()/min/max faithful to CPython', 'defaultdict replaced by an equality-based map under symbolic execution only'],
    'trusted': ['crosshair-tool 0.0.110', 'z3', 'CPython 3.12.1'],
}

A2 = lambda e: e.a(2)  # noqa
G1 = [('a1', lambda e: e.a(1))]
G13 = [('a1', lambda e: e.a(1)), ('a3', lambda e: e.a(3))]
W_POS = ('a2 >= 0', lambda e: e.a(2) >= 0)
W_ODD_ = ('NR % 2 == 1', lambda e: e.NR % 2 == 1)
SPELL = {'COUNT': ['COUNT', 'count', 'Count'], 'MIN': ['MIN', 'min', 'Min'], 'MAX': ['MAX', 'max', 'Max'], 'SUM': ['SUM', 'sum', 'Sum'],
         'ARRAY_AGG': ['ARRAY_AGG', 'array_agg'], 'ANY_VALUE': ['ANY_VALUE', 'any_value', 'Any_value'], 'MEDIAN': ['MEDIAN', 'median', 'Median'],
         'AVG': ['AVG', 'avg', 'Avg'], 'VARIANCE': ['VARIANCE', 'variance', 'Variance']}

CASES = {}
SHAPE = {}
QUICKSET = []


def _add(name, q, shape, quick=False, **kw):
    assert name not in CASES, name
    CASES[name] = q
    SHAPE[name] = (shape, kw)
    if quick:
        QUICKSET.append(name)


def _build():
    n = 0
    exact = ['COUNT', 'MIN', 'MAX', 'SUM', 'ARRAY_AGG', 'ANY_VALUE']
    # A: single aggregate, no GROUP BY
    for ag in exact + ['MEDIAN']:
        for sp in range(len(SPELL[ag])):
            it = agg(ag, 'a2', A2, SPELL[ag][sp])
            _add('one[%s]' % SPELL[ag][sp], Q(items=[it]), ['ii', 'ii', 'ii'], quick=(sp == (n % len(SPELL[ag]))))
        n += 1
    _add('one[COUNT(*)]', Q(items=[Item('COUNT(*)', lambda e: 1, kind='agg', agg='COUNT')]), ['ii', 'ii', 'ii'])
    _add('one[count( * )]', Q(items=[Item('count( * )', lambda e: 1, kind='agg', agg='COUNT'), Item("'COUNT(*)'", lambda e: 'COUNT(*)')]), ['ii', 'ii'], quick=True)
    _add('one[COUNT(1)]', Q(items=[Item('COUNT(1)', lambda e: 1, kind='agg', agg='COUNT')]), ['ii', 'ii', 'ii'])
    _add('count[none-cells]', Q(items=[agg('COUNT', 'a2', A2, 'count'), Item('COUNT(*)', lambda e: 1, kind='agg', agg='COUNT'), agg('ARRAY_AGG', 'a2', A2)]), ['io', 'i', 'io'], quick=True, slen=1)
    _add('count[none-cells,grp]', Q(items=[fa(1), agg('COUNT', 'a2', A2, 'Count'), agg('COUNT', 'a3', lambda e: e.a(3))], group=G1), ['ko', 'k', 'koo', 'k'], quick=True, slen=1, krange=2)
    _add('one[MEDIAN]1row', Q(items=[agg('MEDIAN', 'a2', A2)]), ['ii'])
    _add('one[all]where', Q(items=[agg('COUNT', 'a1', lambda e: e.a(1)), agg('SUM', 'a2', A2, 'sum'), agg('MIN', 'a2', A2), agg('MAX', 'a2', A2, 'Max')], where=W_POS), ['ii', 'ii', 'ii'], quick=True)
    _add('one[empty]', Q(items=[agg('SUM', 'a2', A2)]), [], quick=True)
    # B: GROUP BY one key
    for ag in exact:
        sp = n % len(SPELL[ag])
        n += 1
        _add('grp1[%s]' % SPELL[ag][sp], Q(items=[fa(1), agg(ag, 'a2', A2, SPELL[ag][sp])], group=G1), ['ii', 'ii', 'ii'], quick=(ag in ('SUM', 'MIN', 'ARRAY_AGG')))
        _add('grp1[%s]4' % SPELL[ag][sp], Q(items=[agg(ag, 'a2', A2, SPELL[ag][sp]), fa(1)], group=G1), ['ii', 'ii', 'ii', 'ii'])
    _add('grp1[COUNT(*),SUM,MAX,7]', Q(items=[fa(1), Item('COUNT(*)', lambda e: 1, kind='agg', agg='COUNT'), agg('SUM', 'a2', A2), agg('MAX', 'a2', A2, 'max'), LIT7], group=G1), ['ii', 'ii', 'ii'], quick=True)
    _add('grp1[where]', Q(items=[fa(1), agg('COUNT', 'a2', A2, 'count'), agg('SUM', 'a2 * 2', lambda e: e.a(2) * 2)], group=G1, where=W_POS), ['ii', 'ii', 'ii'], quick=True)
    _add('grp1[where-odd]4', Q(items=[fa(1), agg('MIN', 'a2', A2, 'Min')], group=G1, where=W_ODD_), ['ii', 'ii', 'ii', 'ii'])
    for top, kw in ((0, 'TOP'), (1, 'LIMIT'), (2, 'TOP'), (3, 'LIMIT')):
        _add('grp1[%s=%d]' % (kw.lower(), top), Q(items=[fa(1), agg('SUM', 'a2', A2)], group=G1, top=top, top_kw=kw), ['ii', 'ii', 'ii'], quick=(top == 1))
    _add('grp1[keyonly]', Q(items=[fa(1)], group=G1), ['ii', 'ii', 'ii'], quick=True)
    _add('grp1[keyexpr]', Q(items=[Item('a1 % 2', lambda e: e.a(1) % 2), agg('ARRAY_AGG', 'NR', lambda e: e.NR, 'array_agg')], group=[('a1 % 2', lambda e: e.a(1) % 2)]), ['ii', 'ii', 'ii'])
    # C: two keys
    _add('grp2[SUM]', Q(items=[fa(1), fa(3), agg('SUM', 'a2', A2)], group=G13), ['iii', 'iii', 'iii'], quick=True)
    _add('grp2[COUNT,MAX]', Q(items=[fa(3), agg('COUNT', 'a2', A2), fa(1), agg('MAX', 'a2', A2)], group=G13), ['iii', 'iii', 'iii'])
    _add('grp2[ARRAY_AGG]where', Q(items=[fa(1), agg('ARRAY_AGG', 'a2', A2), fa(3)], group=G13, where=W_POS), ['iii', 'iii', 'iii'])
    # E: numeric strings are converted to numbers
    for ag in ('MIN', 'MAX', 'SUM'):
        _add('num[%s]' % ag, Q(items=[agg(ag, 'a2', A2)]), ['id', 'id', 'id'], quick=(ag != 'MAX'))
        _add('num[grp,%s]' % ag, Q(items=[fa(1), agg(ag, 'a2', A2)], group=G1), ['id', 'id', 'id'])
    _add('num[MEDIAN]', Q(items=[agg('MEDIAN', 'a2', A2)]), ['id', 'id', 'id'])
    _add('num[SUM(int(a2)*2)]', Q(items=[agg('SUM', 'int(a2) * 2', lambda e: int(e.a(2)) * 2)]), ['id', 'id', 'id'], quick=True)
    BIG = ('5', '9007199254740993')     # 2**53 + 1: not representable as a double
    for ag in ('MIN', 'MAX', 'SUM', 'MEDIAN'):
        _add('num[big,%s]' % ag, Q(items=[agg(ag, 'a2', A2)]), ['ip', 'ip', 'ip'], quick=(ag in ('MAX', 'SUM')), pdomain=BIG)
    _add('num[COUNT,ARRAY_AGG]', Q(items=[agg('COUNT', 'a2', A2), agg('ARRAY_AGG', 'a2', A2), agg('ANY_VALUE', 'a2', A2)]), ['id', 'id'])
    # F: non-aggregate columns must be constant within each group
    _add('const[grp]', Q(items=[fa(1), fa(2), Item('COUNT(*)', lambda e: 1, kind='agg', agg='COUNT')], group=G1), ['kk', 'kk', 'kk'], quick=True, krange=2)
    _add('const[nogrp]', Q(items=[fa(2), agg('SUM', 'a1', lambda e: e.a(1))]), ['kk', 'kk', 'kk'], quick=True, krange=2)
    _add('const[grp,where]', Q(items=[agg('MAX', 'a1', lambda e: e.a(1)), fa(2)], group=G1, where=W_ODD_), ['kk', 'kk', 'kk'], krange=2)
    _add('const[none-first]', Q(items=[fa(1), fa(2), Item('COUNT(*)', lambda e: 1, kind='agg', agg='COUNT')], group=G1), ['k', 'kk', 'kk'], quick=True, krange=2)
    # G: lower-case min/max/sum with several arguments or an iterable keep the builtin meaning
    _add('builtin[max2,min-list,sum-list]', Q(items=[Item('max(a1, a2)', lambda e: max(e.a(1), e.a(2))), Item('min([a1, a2])', lambda e: min([e.a(1), e.a(2)])),
                                                   Item('sum([a1, a2, 1])', lambda e: e.a(1) + e.a(2) + 1)]), ['ii', 'ii'], quick=True)
    _add('builtin[max-key,where]', Q(items=[Item('max([a1, a2], key=lambda v: -v)', lambda e: max([e.a(1), e.a(2)], key=lambda v: -v)), NR], where=('min(a1, a2) >= 0', lambda e: min(e.a(1), e.a(2)) >= 0)), ['ii', 'ii'])
    _add('builtin[generator,map,tuple]', Q(items=[Item('max(x for x in [a1, a2])', lambda e: max(e.a(1), e.a(2))), Item('min(map(abs, [a1, a2]))', lambda e: min(abs(e.a(1)), abs(e.a(2)))),
                                                   Item('min((a1, a2))', lambda e: min(e.a(1), e.a(2))), Item('sum(x for x in (a1, a2))', lambda e: e.a(1) + e.a(2))]), ['ii'], quick=True)
    _add('builtin[with-agg]', Q(items=[Item('max(a1, a1)', lambda e: max(e.a(1), e.a(1))), agg('SUM', 'a2', A2, 'sum')], group=G1), ['ii', 'ii', 'ii'], quick=True)
    # K: group keys enumerated by the solver over a small domain and made concrete per path (digit-length / sign boundaries, where an engine
    #    model of str()/repr() of keys would be imprecise): key order must be the numeric order
    ED = (-10, -1, 0, 2, 9, 10, 100)
    _add('enum[grp1,sum]', Q(items=[fa(1), agg('SUM', 'a2', A2)], group=G1), ['ei', 'ei', 'ei'], quick=True, edomain=ED)
    _add('enum[grp1,top2]', Q(items=[fa(1), Item('COUNT(*)', lambda e: 1, kind='agg', agg='COUNT')], group=G1, top=2), ['ei', 'ei', 'ei'], quick=True, edomain=ED)
    _add('enum[grp2]', Q(items=[fa(3), fa(1), agg('MAX', 'a2', A2)], group=G13), ['eie', 'eie'], edomain=ED)
    _add('enum[strkeys]', Q(items=[fa(1), agg('ARRAY_AGG', 'NR', lambda e: e.NR)], group=G1), ['p', 'p', 'p'], quick=True)
    # H: ORDER BY / DISTINCT are rejected in aggregate queries
    _add('reject[orderby]', Q(items=[agg('MAX', 'a2', A2)], order=[('a1', lambda e: e.a(1))]), ['ii', 'ii'], quick=True)
    _add('reject[groupby+orderby]', Q(items=[fa(1), agg('MAX', 'a2', A2)], group=G1, order=[('a1', lambda e: e.a(1))]), ['ii'])
    _add('reject[distinct]', Q(items=[fa(1), agg('COUNT', 'a2', A2)], group=G1, distinct='distinct'), ['ii', 'ii'], quick=True)
    _add('reject[distinct-count]', Q(items=[fa(1), agg('COUNT', 'a2', A2)], group=G1, distinct='count'), ['ii', 'ii'], quick=True)
    _add('reject[distinct,empty]', Q(items=[fa(1), agg('COUNT', 'a2', A2)], group=G1, distinct='distinct'), [])


_build()

HUNT = {}
for _ag in ('AVG', 'VARIANCE'):
    HUNT['float[%s]' % _ag] = Q(items=[agg(_ag, 'a2', A2)])
    HUNT['float[grp,%s]' % _ag] = Q(items=[fa(1), agg(_ag, 'a2', A2, SPELL[_ag][1])], group=G1)
HUNT['float[MEDIAN-even]'] = Q(items=[agg('MEDIAN', 'a2', A2)])
CASES.update(HUNT)


def selfcheck():
    from vf.refmodel import relcheck
    return relcheck.check()


def _acc_obl(cls, n, timeout):
    """Accumulator-state lemma: after n increments of one key (and one of another key) the state is the exact integer tuple."""
    params = [('v%d' % i, 'int') for i in range(n)] + [('other', 'int')]
    pre = []
    if cls == 'VarianceAggregator':
        pre = ['-8 <= v%d <= 8' % i for i in range(n)]
    vs = ', '.join('v%d' % i for i in range(n))
    body = indent('''
ag = rbql_engine.%s()
vals = [%s]
ag.increment('k', vals[0])
ag.increment('z', other)
for v in vals[1:]:
    ag.increment('k', v)
st = ag.stats['k']
if %r == 'AvgAggregator':
    exp = (sum(vals), len(vals))
else:
    exp = (sum(vals), sum([v * v for v in vals]), len(vals))
return (tuple(st), exp)
''' % (cls, vs + (',' if n == 1 else ''), cls))
    src = harness('', params, pre, body)
    return Obl('accumulator[%s,n=%d]' % (cls, n), src, timeout=timeout, meta={'function': 'rbql_engine.%s.increment' % cls, 'bounds': '%d increments, ints%s' % (n, ' in -8..8' if pre else '')})


def obligations(tier, seed):
    obs = []
    quick = tier == 'quick'
    names = (QUICKSET + qh.rotating([n for n in CASES if n not in HUNT and n not in QUICKSET], seed, 6)) if quick else [n for n in CASES if n not in HUNT]
    for name in names:
        shape, kw = SHAPE[name]
        obs.append(qh.query_obl('C03', name, CASES[name], shape, timeout=150 if quick else 900, **kw))
        if not quick and len(shape) == 3 and name.startswith(('grp1[', 'one[')):
            obs.append(qh.query_obl('C03', name, CASES[name], shape + [shape[0]], timeout=900, **kw))
    for cls in ('AvgAggregator', 'VarianceAggregator'):
        for n in ((1, 3) if quick else (1, 2, 3, 4)):
            obs.append(_acc_obl(cls, n, 120 if quick else 600))
    from vf import astsmt
    obs += astsmt.finaliser_obligations(quick)
    if not quick:
        for name in HUNT:
            o = qh.query_obl('C03', name, CASES[name], ['ii', 'ii'], irange=(-4, 4), timeout=60, expect='hunt', tag='hunt')
            o.twin = None
            obs.append(o)
    return obs
