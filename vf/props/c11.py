"""C11 -- field splitting implements the documented quoting dialect exactly.

Decided by CrossHair over the real csv_utils.split_quoted_str / smart_split / split_whitespace_separated_str and the public
path (CSVRecordIterator over a one-line stub stream): the line is an arbitrary Unicode string of a fixed length per shard;
the oracle is the independent scan in vf.refmodel.csvref.
"""
from vf.engine import Obl
from vf.gen import harness, indent, str_params
from vf.refmodel import vectors

INFO = {
    'explanation': 'Each obligation: for EVERY Unicode string s of the stated length (optionally with a stated first-character class), '
                   'the real splitter returns exactly the fields and warning flag of the reference dialect scanner; the quote-preserving '
                   'split re-joins to s; public path = rbql_csv.CSVRecordIterator(PieceIn([s]),...).get_record()/get_warnings().',
    'bounds': 'line length per shard (quick: 0..5, thorough: 0..7 with length 7 split by first-character class); delimiters , ; TAB | SPACE and the multi-character "::", ", ", " | "; '
              'policies quoted, quoted_rfc, simple, whitespace, monocolumn; preserve flag both ways',
    'outside': 'lines longer than the bound; multi-character delimiters other than "::", ", " and " | "; JS twin (see C18)',
    'assumptions': ['CrossHair 0.0.110 models of str/re/list are faithful to CPython 3.12 (counterexamples are replayed on the real interpreter)',
                    'reference dialect scanner vf/refmodel/csvref.py validated on the repository\'s own test_split vectors at every run'],
    'trusted': ['crosshair-tool 0.0.110', 'z3 4.x (z3-solver wheel)', 'CPython 3.12.1 re module'],
}

DLM_NAMES = {'::': 'dcolon', ', ': 'commaspace', ' | ': 'spacepipespace', ',': 'comma', ';': 'semi', '\t': 'tab', '|': 'pipe', ' ': 'space'}


def selfcheck():
    return vectors.check_split_reference()


def _split_obl(dlm, L, preserve, first=None, timeout=60):
    params, pre, sexpr = str_params('s', L)
    if not params:
        params, pre = [('dummy', 'int')], ['dummy == 0']
    if first == 'q':
        pre.append('s_0 == 34')
    elif first == 'd':
        pre.append('s_0 == %d' % ord(dlm))
    elif first == 's':
        pre.append('s_0 == 32')
    elif first == 'o':
        pre.append('s_0 != 34 and s_0 != %d and s_0 != 32' % ord(dlm))
    body = indent('''
s = ''' + sexpr + '''
got = csv_utils.split_quoted_str(s, DLM, PRESERVE)
exp = csvref.split_quoted(s, DLM, PRESERVE)
if PRESERVE:
    got = (got[0], got[1], DLM.join(got[0]))
    exp = (exp[0], exp[1], s)
return (got, exp)
''')
    src = harness('from vf.refmodel import csvref\nDLM = %r\nPRESERVE = %r\n' % (dlm, preserve), params, pre, body)
    name = 'split_quoted[%s,preserve=%d,len=%d%s]' % (DLM_NAMES[dlm], preserve, L, (',first=' + first) if first else '')
    return Obl(name, src, timeout=timeout, meta={'function': 'csv_utils.split_quoted_str', 'dlm': dlm, 'preserve': preserve,
                                                  'bounds': 'every Unicode string s with len(s) == %d%s' % (L, (' and first char class ' + first) if first else '')})


def _split_enum_obl(dlm, L, preserve, timeout=120):
    """Every line of length L over the CLASS ALPHABET {quote, delimiter, space, LF, CR, 'a'}, enumerated by the solver and made concrete per
    path: the real `re` module then runs on plain strings.  Covers what CrossHair's regex model cannot see (`$` also matches before a final LF)."""
    alpha = tuple(sorted(set([34, 32, 10, 13, 97] + [ord(c) for c in dlm])))
    params = [('n%d' % i, 'int') for i in range(L)] or [('dummy', 'int')]
    pre = ['n%d in %r' % (i, alpha) for i in range(L)] or ['dummy == 0']
    body = indent("""
s = ''.join([chr(qh.concretize(n, ALPHA)) for n in [%s]])
got = csv_utils.split_quoted_str(s, DLM, PRESERVE)
exp = csvref.split_quoted(s, DLM, PRESERVE)
if PRESERVE:
    got = (got[0], got[1], DLM.join(got[0]))
    exp = (exp[0], exp[1], s)
return (got, exp)
""" % ', '.join('n%d' % i for i in range(L)))
    src = harness('from vf import qh\nfrom vf.refmodel import csvref\nDLM = %r\nPRESERVE = %r\nALPHA = %r\n' % (dlm, preserve, alpha), params, pre, body)
    return Obl('split_quoted_enum[%s,preserve=%d,len=%d]' % (DLM_NAMES[dlm], preserve, L), src, timeout=timeout,
               meta={'function': 'csv_utils.split_quoted_str', 'bounds': 'every line of length %d over the class alphabet (code points %r), solver-enumerated and concrete per path' % (L, alpha)})


def _smart_obl(dlm, policy, L, preserve, timeout=60):
    params, pre, sexpr = str_params('s', L)
    if not params:
        params, pre = [('dummy', 'int')], ['dummy == 0']
    body = indent('''
s = ''' + sexpr + '''
got = csv_utils.smart_split(s, DLM, POLICY, PRESERVE)
exp = csvref.smart_split(s, DLM, POLICY, PRESERVE)
return (got, exp)
''')
    src = harness('from vf.refmodel import csvref\nDLM = %r\nPOLICY = %r\nPRESERVE = %r\n' % (dlm, policy, preserve), params, pre, body)
    name = 'smart_split[%s,%s,preserve=%d,len=%d]' % (policy, DLM_NAMES[dlm], preserve, L)
    return Obl(name, src, timeout=timeout, meta={'function': 'csv_utils.smart_split', 'policy': policy, 'dlm': dlm, 'preserve': preserve,
                                                  'bounds': 'every Unicode string s with len(s) == %d' % L})


def _ws_rejoin_obl(L, timeout=60):
    params, pre, sexpr = str_params('s', L)
    if not params:
        params, pre = [('dummy', 'int')], ['dummy == 0']
    body = indent('''
s = ''' + sexpr + '''
got = csv_utils.split_whitespace_separated_str(s, True)
has_nonspace = len(s.replace(' ', '')) > 0
return ((' '.join(got) if has_nonspace else s, [f.strip(' ') for f in got]), (s, csvref.split_whitespace(s)))
''')
    src = harness('from vf.refmodel import csvref\n', params, pre, body)
    return Obl('whitespace_preserving_rejoin[len=%d]' % L, src, timeout=timeout,
               meta={'function': 'csv_utils.split_whitespace_separated_str(preserve)', 'bounds': 'every Unicode string s with len(s) == %d' % L})


def _reader_obl(dlm, policy, L, timeout=90):
    # public path: one physical line (no CR / LF in it), read through the real record iterator
    params, pre, sexpr = str_params('s', L)
    if not params:
        params, pre = [('dummy', 'int')], ['dummy == 0']
    pre += ['%s != 10 and %s != 13' % (n, n) for n, _t in params if n != 'dummy']
    body = indent('''
s = ''' + sexpr + '''
try:
    it = rbql_csv.CSVRecordIterator(stubs.PieceIn([s]), None, DLM, POLICY)
    recs = it.get_all_records()
    warns = it.get_warnings()
    got = ('ok', recs, warns)
except rbql_engine.RbqlIOHandlingError as e:
    got = ('io', str(e))
fields, warn = csvref.smart_split(s, DLM, POLICY)
if warn and POLICY == 'quoted_rfc':
    exp = ('io', 'Inconsistent double quote escaping in input table at record 1, line 1')
else:
    exp_recs = [fields] if len(s) else []
    exp_warns = ['Inconsistent double quote escaping in input table. E.g. at line 1'] if warn else []
    exp = ('ok', exp_recs, exp_warns)
return (got, exp)
''')
    src = harness('from vf.refmodel import csvref\nDLM = %r\nPOLICY = %r\n' % (dlm, policy), params, pre, body)
    name = 'reader_one_line[%s,%s,len=%d]' % (policy, DLM_NAMES[dlm], L)
    return Obl(name, src, timeout=timeout, meta={'function': 'rbql_csv.CSVRecordIterator.get_all_records/get_warnings', 'policy': policy, 'dlm': dlm,
                                                  'bounds': 'every Unicode string s without CR/LF with len(s) == %d' % L})


def obligations(tier, seed):
    obs = []
    if tier == 'quick':
        dlms = [',', ' ', '\t']
        extra = [';', '|']
        # rotate the remaining delimiters by seed
        dlms.append(extra[seed % 2])
        for d in dlms:
            for L in (0, 1, 2, 3, 4):
                obs.append(_split_obl(d, L, False, timeout=60))
                obs.append(_split_obl(d, L, True, timeout=60))
        for d in (',', ' '):
            obs.append(_split_obl(d, 5, False, timeout=120))
            obs.append(_split_obl(d, 5, True, timeout=120))
        for L in (2, 3, 4):
            obs.append(_split_enum_obl(',', L, False))
        obs.append(_split_enum_obl(',', 4, True))
        obs.append(_split_enum_obl(' ', 4, False))
        for L in (0, 1, 2, 3, 4):
            obs.append(_split_obl('::', L, False, timeout=90))     # multi-character delimiter (fixed defect, see known_findings.json)
            obs.append(_split_obl('::', L, True, timeout=90))
        # multi-character delimiter that CONTAINS a blank: blanks around a quoted field are still allowed (only dlm == ' ' forbids them)
        for L in (3, 4):
            obs.append(_split_obl(', ', L, False, timeout=90))
        obs.append(_split_enum_obl(', ', 4, False))
        obs.append(_split_enum_obl(', ', 4, True))
        for L in (0, 2, 4):
            obs.append(_smart_obl(',', 'simple', L, False))
            obs.append(_smart_obl(' ', 'whitespace', L, False))
            obs.append(_smart_obl(' ', 'whitespace', L, True))
            obs.append(_smart_obl(',', 'monocolumn', L, False))
            obs.append(_smart_obl(',', 'quoted_rfc', L, False))
            obs.append(_ws_rejoin_obl(L))
        for L in (0, 1, 2, 3):
            obs.append(_reader_obl(',', 'quoted', L))
        obs.append(_reader_obl(' ', 'quoted', 3))
        obs.append(_reader_obl(' ', 'whitespace', 3))
    else:
        for d in (',', ';', '\t', '|', ' '):
            for L in range(0, 7):
                t = 120 if L <= 4 else (300 if L == 5 else 900)
                obs.append(_split_obl(d, L, False, timeout=t))
                obs.append(_split_obl(d, L, True, timeout=t))
        for d in (',', ' ', '\t'):
            for L in (2, 3, 4, 5):
                obs.append(_split_enum_obl(d, L, False, timeout=900))
                obs.append(_split_enum_obl(d, L, True, timeout=900))
        for L in range(0, 7):
            obs.append(_split_obl('::', L, False, timeout=900))
            obs.append(_split_obl('::', L, True, timeout=900))
        for d in (', ', ' | '):
            for L in range(0, 6):
                obs.append(_split_obl(d, L, False, timeout=900))
                obs.append(_split_obl(d, L, True, timeout=900))
            for L in (3, 4, 5):
                obs.append(_split_enum_obl(d, L, False, timeout=900))
                obs.append(_split_enum_obl(d, L, True, timeout=900))
        for d in (',', ' '):
            for first in ('q', 'd', 's', 'o'):
                if d == ' ' and first == 's':
                    continue
                obs.append(_split_obl(d, 7, False, first=first, timeout=1500))
        for L in range(0, 7):
            t = 120 if L <= 4 else 600
            for d in (',', '\t'):
                obs.append(_smart_obl(d, 'simple', L, False, timeout=t))
            obs.append(_smart_obl(' ', 'whitespace', L, False, timeout=t))
            obs.append(_smart_obl(' ', 'whitespace', L, True, timeout=t))
            obs.append(_smart_obl(',', 'monocolumn', L, False, timeout=t))
            obs.append(_smart_obl(',', 'quoted_rfc', L, False, timeout=t))
            obs.append(_smart_obl(',', 'quoted', L, True, timeout=t))
            obs.append(_ws_rejoin_obl(L, timeout=t))
        for L in range(0, 6):
            t = 200 if L <= 3 else 900
            obs.append(_reader_obl(',', 'quoted', L, timeout=t))
            obs.append(_reader_obl(' ', 'quoted', L, timeout=t))
            obs.append(_reader_obl(',', 'quoted_rfc', L, timeout=t))
            obs.append(_reader_obl(' ', 'whitespace', L, timeout=t))
            obs.append(_reader_obl('\t', 'simple', L, timeout=t))
    return obs
