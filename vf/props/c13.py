"""C13 -- Same query, same data => same result through every front-end and backend (claimed: list / query() adapters / CSV adapters / CLI contract).

(a) adapters: for a symbolic rectangular string table the same type-agnostic query gives the same table and header through
    rbql_engine.query_table, rbql_engine.query with TableIterator/TableWriter, rbql_engine.query with user-written pure-Python
    iterator / writer / registry, and rbql_engine.query with the real CSVRecordIterator (over the reference writer's text) + real
    CSVWriter (read back by the reference reader).
(b) command line contract: rbql_main.main() in process on a concrete argv family with rbql_csv.query_csv replaced by a
    NONDETERMINISTIC stub constrained only by its contract (records its arguments, appends an arbitrary number of warnings, returns or
    raises any of the error classes -- outcome symbolic): argument mapping, exit status, stdout silence, one `Warning:` line per
    warning and exactly one `Error [type]: msg` line on stderr.
Not claimed: a real `python -m rbql` subprocess, files on disk, pandas, sqlite files (OS / C boundaries).
"""
from vf import qh
from vf.engine import Obl
from vf.gen import harness, indent
from vf.qlib import *  # noqa

INFO = {
    'explanation': 'Adapter obligations: for EVERY rectangular table of 1-character strings (any Unicode except CR/LF) the four entry points agree on rows (values compared as strings) and header. '
                   'CLI obligations: for EVERY stub outcome (success with 0..2 warnings; each error class with each message of a finite set) the contract holds for the concrete argv.',
    'bounds': 'tables 2x2 / 3x2 of 1-character strings, join table 2x2; 12 type-agnostic queries; 14 argv variants x 5 outcome classes x 0..2 warnings x 3 messages'
        '; list front-ends in sequence over the same table objects (4 queries); stdin -> stdout / file bytes through the real encoding layers, latin-1 and utf-8, cells from a 4-member pool',
    'outside': 'real subprocess / stdin / stdout plumbing, files on disk, pandas dataframes, sqlite databases, header presence other than equalised "no header"',
    'assumptions': ['print() of rbql_main rebound to a pure-Python print (CrossHair swallows the builtin); sys of rbql_main replaced by a recording namespace',
                    'error / warning messages range over a finite set (an exception carrying a symbolic string is concretised by the engine)'],
    'trusted': ['crosshair-tool 0.0.110', 'z3', 'CPython 3.12.1 argparse (concrete input)'],
}

QUERIES = {
    'proj-where': "select a2, a1 where a1 != 'x'",
    'star-order': 'select * order by a1',
    'star-order-desc': 'select a1, a2 order by a2 desc',
    'distinct': 'select distinct a1',
    'distinct-count': 'select distinct count a2',
    'group-count': 'select a1, count(*) group by a1',
    'top': 'select top 1 a2, a1',
    'update': 'update set a2 = a1 where a1 != a2',
    'except': 'select * except a1',
    'concat': "select a1 + a2, NR",
    'join': 'select a1, b2 join b on a1 == b1',
    'left-join': 'select a2, b1 left join b on a1 == b1 where b2 is None or b2 != a2',
    'runtime-error': 'select a1 where [0][len(a2)] == 0',
    'distinct-len': 'select distinct len(a1), a2',
    'distinct-nr0': 'select distinct NR * 0, a1',
    'update-append': "update set a1 = a1 + '!', a2 = a1",
    'update-swap-join': 'update set a1 = b2, a2 = a1 join b on a1 == b1',
}

ADAPTERS = '''
from vf.refmodel import csvref
from vf import csvh      # text-level model of the encoding layer (encode_*_stream := identity); `encoding` still reaches the BOM logic


class MyIterator(rbql_engine.RBQLInputIterator):
    """User-supplied iterator written against the documented interface only."""
    def __init__(self, rows, prefix='a'):
        self.rows = rows
        self.i = 0
        self.prefix = prefix
    def get_variables_map(self, query_text):
        m = dict()
        rbql_engine.parse_basic_variables(query_text, self.prefix, m)
        rbql_engine.parse_array_variables(query_text, self.prefix, m)
        return m
    def get_record(self):
        if self.i >= len(self.rows):
            return None
        self.i += 1
        return list(self.rows[self.i - 1])


class MyWriter(rbql_engine.RBQLOutputWriter):
    def __init__(self):
        self.rows = []
        self.header = None
    def write(self, fields):
        self.rows.append(fields)
        return True
    def set_header(self, header):
        self.header = header


class MyRegistry(rbql_engine.RBQLTableRegistry):
    def __init__(self, rows):
        self.rows = rows
    def get_iterator_by_table_id(self, table_id, alias):
        return MyIterator(self.rows, alias) if table_id in ('b', 'B') else None


class CsvRegistry(rbql_engine.RBQLTableRegistry):
    def __init__(self, rows):
        self.rows = rows
    def get_iterator_by_table_id(self, table_id, alias):
        text = csvref.write_table(self.rows, CSV_DLM, CSV_POLICY)
        return rbql_csv.CSVRecordIterator(stubs.PieceIn([text]), None, CSV_DLM, CSV_POLICY, table_name=table_id, variable_prefix=alias)


def strs(rows):
    return [['' if v is None else (v if isinstance(v, str) else str(v)) for v in r] for r in rows]


def outcome(fn):
    try:
        rows, header = fn()
        return ('ok', strs(rows), header)
    except (rbql_engine.RbqlRuntimeError, rbql_engine.RbqlParsingError, rbql_engine.RbqlIOHandlingError) as e:
        msg = e.args[0] if e.args else ''
        return ('err', type(e).__name__, msg[:12])


def via_query_table(q, T, B):
    out, hdr = [], []
    rbql_engine.query_table(q, T, out, [], B, None, None, hdr)
    return out, (hdr if hdr else None)


def via_table_adapters(q, T, B):
    out = []
    w = rbql_engine.TableWriter(out)
    reg = rbql_engine.ListTableRegistry([rbql_engine.ListTableInfo('b', B, None)]) if B is not None else None
    rbql_engine.query(q, rbql_engine.TableIterator(T), w, [], reg)
    return out, w.header


def via_user_objects(q, T, B):
    w = MyWriter()
    rbql_engine.query(q, MyIterator(T), w, [], MyRegistry(B) if B is not None else None)
    return w.rows, w.header


def via_sequence(q, T, B):
    """The list front-ends one after the other over the SAME table objects (no copies in between): each must see the data the caller built."""
    r1 = via_query_table(q, T, B)
    r2 = via_table_adapters(q, T, B)
    r3 = via_user_objects(q, T, B)
    r4 = via_query_table(q, T, B)
    if strs(r1[0]) == strs(r2[0]) == strs(r3[0]) == strs(r4[0]):
        return r4
    return [['front-ends disagree in sequence'], r1[0], r2[0], r3[0], r4[0]], None


def via_csv_bom(q, T, B):
    """The same CSV text behind a UTF-8 BOM, read as utf-8: the BOM is not data."""
    text = chr(0xFEFF) + csvref.write_table(T, CSV_DLM, CSV_POLICY)
    out = stubs.StubOut()
    w = rbql_csv.CSVWriter(out, False, None, CSV_DLM, CSV_POLICY)
    rbql_engine.query(q, rbql_csv.CSVRecordIterator(stubs.PieceIn([text]), 'utf-8', CSV_DLM, CSV_POLICY), w, [], CsvRegistry(B) if B is not None else None)
    back = csvref.expected_read(out.text(), CSV_DLM, CSV_POLICY)
    return back[1], None


def via_csv(q, T, B):
    text = csvref.write_table(T, CSV_DLM, CSV_POLICY)
    out = stubs.StubOut()
    w = rbql_csv.CSVWriter(out, False, None, CSV_DLM, CSV_POLICY)
    rbql_engine.query(q, rbql_csv.CSVRecordIterator(stubs.PieceIn([text]), None, CSV_DLM, CSV_POLICY), w, [], CsvRegistry(B) if B is not None else None)
    back = csvref.expected_read(out.text(), CSV_DLM, CSV_POLICY)
    return back[1], None
'''


def _adapter_obl(qname, a_rows, b_rows, timeout, which='via_table_adapters', csv=('\t', 'simple'), slen=2):
    query = QUERIES[qname]
    pa, pb, po, texpr = qh.table_params('a', a_rows, slen)
    params, pre = list(pa), list(pb)
    bexpr = 'None'
    if b_rows is not None:
        p2, pb2, po2, bexpr = qh.table_params('b', b_rows)
        params += p2
        pre += pb2
    pre += ['%s != 10 and %s != 13' % (n, n) for n, t_ in params if t_ == 'int'] + ['chr(10) not in %s and chr(13) not in %s' % (n, n) for n, t_ in params if t_ == 'str']
    if which in ('via_csv', 'via_csv_bom') and csv[1] == 'simple':
        pre += ['%s != 9' % n for n, _t in params]
    body = indent('''
T = %s
B = %s
base = outcome(lambda: via_query_table(QUERY, qh.copy_table(T), qh.copy_table(B)))
other = outcome(lambda: %s(QUERY, %s))
return (other, base)
''' % (texpr, bexpr, which, 'T, B' if which == 'via_sequence' else 'qh.copy_table(T), qh.copy_table(B)'))
    src = harness('from vf import qh\nQUERY = %r\nCSV_DLM = %r\nCSV_POLICY = %r\n' % (query, csv[0], csv[1]), params, pre, body, extra_defs=ADAPTERS)
    return Obl('adapters[%s|%s%s|A=%s%s]' % (qname, which[4:], ('/' + csv[1]) if which == 'via_csv' else '', qh.shape_name(a_rows), (',B=' + qh.shape_name(b_rows)) if b_rows else ''), src, timeout=timeout,
               meta={'query': query, 'bounds': 'every table of shape %s of 1-character strings without CR/LF' % qh.shape_name(a_rows)})


# ------------------------------------------------------------------ command line contract
ARGVS = {
    'file-default': ['--input', '/d/A.csv', '--delim', ',', '--query', 'select a1', '--output', '/d/o.csv'],
    'stdin-stdout': ['--delim', ';', '--query', 'select a1'],
    'tab': ['--delim', 'TAB', '--query', 'select a1'],
    'tab-escaped': ['--delim', '\\t', '--query', 'select a2', '--with-headers'],
    'space': ['--delim', ' ', '--query', 'select a1'],
    'pipe-simple': ['--delim', '|', '--query', 'select a1'],
    'policy-rfc': ['--delim', ',', '--policy', 'quoted_rfc', '--query', 'select a1', '--encoding', 'latin-1'],
    'policy-simple-comma': ['--delim', ',', '--policy', 'simple', '--query', 'select a1'],
    'out-csv': ['--delim', 'TAB', '--query', 'select a1', '--out-format', 'csv'],
    'out-tsv': ['--delim', ',', '--query', 'select a1', '--out-format', 'tsv', '--with-headers'],
    'out-input': ['--delim', '|', '--policy', 'quoted', '--query', 'select a1', '--out-format', 'input'],
    'monocolumn': ['--policy', 'monocolumn', '--delim', ',', '--query', 'select a1'],
    'multichar': ['--delim', ':=)', '--query', 'select a1', '--comment-prefix', '#'],
    'csv-mode-word': ['csv', '--delim', ',', '--query', 'select a1'],
}

CLI_SRC = '''
import types
from rbql import rbql_main

MSGS = ['boom', 'At record 2, Details: division by zero', 'Unable to find column "x"']
WARNS = ['None values in output were replaced by empty strings', 'Some output fields contain separator']


class FakeExit(Exception):
    def __init__(self, code):
        Exception.__init__(self, code)
        self.code = code


class OtherError(Exception):
    pass


def expected_mapping(argv):
    """Independent statement of the documented CLI argument mapping."""
    a = list(argv)
    if a and a[0] == 'csv':
        a = a[1:]
    opt = {}
    i = 0
    while i < len(a):
        if a[i] in ('--with-headers',):
            opt[a[i]] = True
            i += 1
        else:
            opt[a[i]] = a[i + 1]
            i += 2
    delim = opt.get('--delim')
    if delim in ('TAB', chr(92) + 't'):
        delim = chr(9)
    policy = opt.get('--policy')
    if policy == 'monocolumn':
        delim = ''
    if policy is None:
        policy = 'quoted' if delim in (';', ',') else ('whitespace' if delim == ' ' else 'simple')
    fmt = opt.get('--out-format', 'input')
    if fmt == 'input':
        od, op = delim, policy
    elif fmt == 'csv':
        od, op = ',', 'quoted'
    else:
        od, op = chr(9), 'simple'
    return dict(query=opt['--query'], input_path=opt.get('--input'), delim=delim, policy=policy, output_path=opt.get('--output'), out_delim=od, out_policy=op,
                encoding=opt.get('--encoding', 'utf-8'), with_headers=bool(opt.get('--with-headers', False)), comment_prefix=opt.get('--comment-prefix'))


def run_cli(argv, outcome, nwarn, msg_idx):
    calls = []

    def stub_query_csv(query_text, input_path, input_delim, input_policy, output_path, output_delim, output_policy, csv_encoding, output_warnings, with_headers,
                       comment_prefix=None, user_init_code='', colorize_output=False):
        calls.append(dict(query=query_text, input_path=input_path, delim=input_delim, policy=input_policy, output_path=output_path, out_delim=output_delim,
                          out_policy=output_policy, encoding=csv_encoding, with_headers=with_headers, comment_prefix=comment_prefix))
        for i in range(nwarn):
            output_warnings.append(WARNS[i % len(WARNS)])
        if outcome == 1:
            raise rbql_engine.RbqlParsingError(MSGS[msg_idx])
        if outcome == 2:
            raise rbql_engine.RbqlRuntimeError(MSGS[msg_idx])
        if outcome == 3:
            raise rbql_engine.RbqlIOHandlingError(MSGS[msg_idx])
        if outcome == 4:
            raise OtherError(MSGS[msg_idx])

    so, se = stubs.StubOut(), stubs.StubOut()

    def fake_exit(code=0):
        raise FakeExit(code)
    import sys as real_sys
    fake_sys = types.SimpleNamespace(argv=None, stdout=so, stderr=se, exit=fake_exit, version_info=real_sys.version_info, exc_info=real_sys.exc_info)
    rbql_main.sys = fake_sys
    rbql_main.print = stubs.pure_print
    rbql_csv.query_csv = stub_query_csv
    saved_argv = real_sys.argv
    real_sys.argv = ['rbql'] + list(argv)      # argparse reads the interpreter's sys.argv
    fake_sys.argv = real_sys.argv               # same list object: main() deletes the mode word from it
    try:
        rbql_main.main()
        code = 0
    except FakeExit as e:
        code = e.code
    finally:
        real_sys.argv = saved_argv
    return calls, code, so.text(), se.text()
'''


def _cli_obl(aname, timeout):
    argv = ARGVS[aname]
    body = indent('''
calls, code, out_text, err_text = run_cli(ARGV, outcome, nwarn, msg_idx)
exp_calls = [expected_mapping(ARGV)]
if outcome == 0:
    exp_err = ''.join(['Warning: ' + WARNS[i % len(WARNS)] + chr(10) for i in range(nwarn)])
    exp = (exp_calls, 0, '', exp_err)
else:
    etype = {1: 'query parsing', 2: 'query execution', 3: 'IO handling', 4: 'unexpected'}[outcome]
    exp = (exp_calls, 1, '', 'Error [' + etype + ']: ' + MSGS[msg_idx] + chr(10))
return ((calls, code, out_text, err_text), exp)
''')
    src = harness('ARGV = %r\n' % (argv,), [('outcome', 'int'), ('nwarn', 'int'), ('msg_idx', 'int')], ['0 <= outcome <= 4', '0 <= nwarn <= 2', '0 <= msg_idx <= 2'], body, extra_defs=CLI_SRC)
    return Obl('cli[%s]' % aname, src, timeout=timeout, meta={'argv': argv, 'function': 'rbql_main.main -> csv_main -> run_with_python_csv',
                                                               'bounds': 'every outcome in {success, parsing, runtime, IO, other error} x 0..2 warnings x 3 messages'})


def _cli_reject_obl(aname, argv, timeout):
    """Argument combinations that must be refused with exit status 1 and one Error line, without calling the engine."""
    body = indent('''
calls, code, out_text, err_text = run_cli(ARGV, outcome, 0, 0)
return ((calls, code, out_text, err_text.startswith('Error [generic]: ') and err_text.count(chr(10)) == 1), ([], 1, '', True))
''')
    src = harness('ARGV = %r\n' % (argv,), [('outcome', 'int')], ['0 <= outcome <= 4'], body, extra_defs=CLI_SRC)
    return Obl('cli_reject[%s]' % aname, src, timeout=timeout, meta={'argv': argv, 'bounds': 'every stub outcome'})


STDIO = '''
import io, types
from vf.refmodel import csvref
from vf import qh

class KeepBytes(io.BytesIO):
    """Byte sink standing for the OS stream behind sys.stdout / a file: remembers what reached it, survives close() of the text layer above."""
    def close(self):
        pass

POOL = {'latin-1': (0x61, 0xe9, 0xff, 0x22), 'utf-8': (0x61, 0xe9, 0x20ac, 0x22)}
'''


def _stdio_obl(enc, to_stdout, timeout):
    """Bytes in, bytes out through the REAL encoding layers of the CSV front-end (nothing stubbed): the output stream carries the result in
    the requested encoding whether it is the process's stdout (a text stream with its own encoding) or a file opened by the front-end."""
    body = indent('''
c = chr(qh.concretize(n0, POOL[ENC]))
d = chr(qh.concretize(n1, POOL[ENC]))
T = [[c, 'x' + d], ['y', c + d]]
data = csvref.write_table(T, ',', 'quoted').encode(ENC)
sink_out = KeepBytes()
sink_file = KeepBytes()
fake_stdout = io.TextIOWrapper(sink_out, encoding=('utf-8' if ENC == 'latin-1' else 'latin-1'), errors='replace')   # the terminal's own encoding differs from the requested one
fake_stdin = io.TextIOWrapper(io.BytesIO(data), encoding='ascii', errors='replace')
rbql_csv.sys = types.SimpleNamespace(stdin=fake_stdin, stdout=fake_stdout, stderr=None, version_info=__import__('sys').version_info)
rbql_csv.open = lambda path, mode='r': sink_file
warnings = []
rbql_csv.query_csv('select a2, a1', None, ',', 'quoted', None if TO_STDOUT else '/d/out.csv', ',', 'quoted', ENC, warnings, False)
try:
    fake_stdout.flush()
except Exception:
    pass
got = (sink_out if TO_STDOUT else sink_file).getvalue()
exp = csvref.write_table([[r[1], r[0]] for r in T], ',', 'quoted').encode(ENC)
return ((got, warnings), (exp, []))
''')
    src = harness('ENC = %r\nTO_STDOUT = %r\n' % (enc, to_stdout), [('n0', 'int'), ('n1', 'int')], ['n0 in POOL[ENC]', 'n1 in POOL[ENC]'], body, extra_defs=STDIO)
    return Obl('stdio_bytes[%s,%s]' % (enc, 'stdout' if to_stdout else 'file'), src, timeout=timeout,
               meta={'function': 'rbql_csv.query_csv (stdin -> stdout / output file) with the real encode_input_stream / encode_output_stream',
                     'bounds': '2x2 table with two cells drawn from a 4-member pool per encoding (ASCII, two non-ASCII, double quote), solver-enumerated and concrete per path'})


def obligations(tier, seed):
    obs = []
    quick = tier == 'quick'
    t = 150 if quick else 900
    for qn in QUERIES:
        jn = 'join' in qn
        for which in ('via_table_adapters', 'via_user_objects', 'via_csv'):
            obs.append(_adapter_obl(qn, ['cc', 'cz'], ['cc', 'cz'] if jn else None, t, which))
            if not quick:
                obs.append(_adapter_obl(qn, ['cc', 'cc', 'cz'], ['cc', 'cc'] if jn else None, t, which))
        obs.append(_adapter_obl(qn, ['cz'] if jn else ['cc'], ['cz'] if jn else None, t, 'via_csv', (',', 'quoted')))
        if qn in ('proj-where', 'star-order', 'update', 'distinct-len'):
            obs.append(_adapter_obl(qn, ['cc', 'cz'], None, t, 'via_csv_bom'))
        if qn.startswith('distinct'):
            obs.append(_adapter_obl(qn, ['cz', 'cz', 'cz'], None, t, 'via_csv', (',', 'quoted')))   # duplicates + cells the writer has to quote
        if 'a2' not in QUERIES[qn] and not jn and qn != 'except':
            # one-column tables whose cells may be EMPTY strings (an empty cell is written as a blank line and must come back as a record);
            # `* except a1` is left out: it yields zero-field records, which no CSV dialect can represent
            for shp in (['c', 'E'], ['E', 'c', 'E']):
                obs.append(_adapter_obl(qn, shp, None, t, 'via_csv', (',', 'quoted')))
        if not quick:
            obs.append(_adapter_obl(qn, ['cc', 'cz'], ['cz'] if jn else None, t, 'via_csv', (',', 'quoted_rfc')))
    for qn, b in (('update-append', None), ('update', None), ('update-swap-join', ['cc', 'cz']), ('star-order', None)):
        obs.append(_adapter_obl(qn, ['cc', 'cz'], b, t, 'via_sequence'))
    for enc in ('latin-1', 'utf-8'):
        for to_stdout in (True, False):
            obs.append(_stdio_obl(enc, to_stdout, t))
    for an in ARGVS:
        obs.append(_cli_obl(an, t))
    obs.append(_cli_reject_obl('policy-without-delim', ['--policy', 'simple', '--query', 'select a1'], 60))
    obs.append(_cli_reject_obl('no-delim', ['--query', 'select a1'], 60))
    obs.append(_cli_reject_obl('output+color', ['--delim', ',', '--query', 'select a1', '--output', '/d/o', '--color'], 60))
    return obs
