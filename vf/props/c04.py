"""C04 -- JOIN pairs each A record with exactly its key-equal B records.

Decided by CrossHair over the real rbql_engine.query_table(..., join_table=B) (parse_join_expression, resolve_join_variables,
HashJoinMap, Inner/Left/StrictLeft joiners, PROCESS_SELECT_JOIN, PROCESS_UPDATE_JOIN): concrete join-kind x key-list x downstream
family, symbolic key cells (ints: keys are only compared and hashed) and payload cells; oracle = expansion of A by definition
(nested loops in A order then B order) followed by the C01-C03/C05 reference.
"""
from vf import qh
from vf.qlib import *  # noqa

INFO = {
    'explanation': 'Each obligation: for EVERY pair of tables of the stated shapes the real engine equals the reference that expands A record by record with '
                   'its key-equal B records in B order (INNER drops unmatched, LEFT adds one all-None partner of the widest B width, STRICT LEFT fails unless '
                   'exactly one match) and then applies WHERE / SELECT / ORDER BY / aggregation / UPDATE / UNNEST to the pairs.',
    'bounds': '|A| <= 3, |B| <= 3 (quick 2x2); 1-3 key pairs incl. NR / aNR / a.NR with bNR / b.NR or a field; int keys (0..1 where RBQL embeds the key in an error message); '
              'payload cells int or str len <= 2; one str-key shard; ragged A and B shards',
    'outside': 'symbolic query text; bigger tables; long string keys; JS twin',
    'assumptions': ['HashJoinMap.hash_map (defaultdict) replaced by an equality-based map under symbolic execution only: claims assume keys with consistent ==/hash'],
    'trusted': ['crosshair-tool 0.0.110', 'z3', 'CPython 3.12.1'],
}

KINDS = {'join': 'JOIN', 'inner': 'INNER JOIN', 'left': 'LEFT JOIN', 'leftouter': 'LEFT OUTER JOIN', 'strict': 'STRICT LEFT JOIN'}
KEYS = {
    'a1b1': ([(0, 0)], 'a1 == b1'),
    'b1a1': ([(0, 0)], 'b1 == a1'),
    'a1=b1': ([(0, 0)], 'a1 = b1'),
    'a[1]b[1]': ([(0, 0)], 'a[1] == b[1]'),
    'a2b1': ([(1, 0)], 'a2 == b1'),
    'two': ([(0, 0), (1, 1)], 'a1 == b1 and a2 == b2'),
    'twoX': ([(0, 1), (1, 0)], 'b2 == a1 AND a2 = b1'),
    'three': ([(0, 0), (1, 1), (2, 2)], 'a1 == b1 and a2 == b2 and b3 == a3'),
    'NRbNR': ([('NR', 'NR')], 'NR == bNR'),
    'aNRb1': ([('NR', 0)], 'aNR == b1'),
    'a.NRb.NR': ([('NR', 'NR')], 'a.NR == b.NR'),
    'a1bNR': ([(0, 'NR')], 'a1 == bNR'),
    'a1b1+NR': ([(0, 0), ('NR', 'NR')], 'a1 == b1 and NR == bNR'),
    'a1b1+a1b2': ([(0, 0), (0, 1)], 'a1 == b1 and a1 == b2'),
    'NRbNR+NRb1': ([('NR', 'NR'), ('NR', 0)], 'NR == bNR and aNR == b1'),
    'NR+a1b1': ([('NR', 'NR'), (0, 0)], 'aNR == b.NR and b1 == a1'),
    'a1bNR+a2b1': ([(0, 'NR'), (1, 0)], 'a1 == bNR and a2 == b1'),
}
A1B2 = [fa(1), fb(2)]
B2N = ('b2 if b2 is not None else -1', lambda e: e.b(2) if e.b(2) is not None else -1)
DOWN = {
    'a1b2': dict(items=A1B2),
    'star': dict(items=[STAR]),
    'bstar': dict(items=[BSTAR, NR]),
    'bnr': dict(items=[fa(2), BNR, fb(1), Item('bNF', lambda e: len(e.rb))]),
    'whereb': dict(items=[fa(1), fb(2), NR], where=('b2 is not None and b2 >= 0', lambda e: e.b(2) is not None and e.b(2) >= 0)),
    'orderb': dict(items=[fa(2), fb(2)], order=[B2N]),
    'orderbdesc': dict(items=[fa(2), fb(2), NR], order=[B2N, ('a2', lambda e: e.a(2))], desc=True, order_suffix='DESC'),
    'group': dict(items=[Item(B2N[0], B2N[1]), Item('COUNT(*)', lambda e: 1, kind='agg', agg='COUNT'), agg('SUM', 'a2', lambda e: e.a(2))], group=[B2N]),
    'distinct': dict(items=[fb(2)], distinct='distinct'),
    'top1': dict(items=[fa(2), fb(2)], top=1),
    'unnest': dict(items=[fa(1), Item('UNNEST([a2, b2])', lambda e: [e.a(2), e.b(2)], kind='unnest')]),
    'update': dict(update=[('a2', 1, 'b2', lambda e: e.b(2))]),
    'update2': dict(update=[('a2', 1, 'b2', lambda e: e.b(2)), ('a1', 0, 'a2', lambda e: e.a(2))], where=('bNR == 1 or b2 is None', lambda e: e.bNR == 1 or e.b(2) is None)),
    'updateNU': dict(update=[('a2', 1, 'NU', lambda e: e.NU)], where=('b2 != a2', lambda e: e.b(2) != e.a(2))),
}
CASES = {}
SPEC = {}


def _add(name, kind, key, down, a, b, quick=False, **kw):
    pairs, on = KEYS[key]
    q = Q(join=Join(KINDS[kind], pairs, on, table=('B' if len(name) % 2 else 'b')), **DOWN[down])
    assert name not in CASES, name
    CASES[name] = q
    SPEC[name] = (a, b, kw, quick)


def _build():
    n = 0
    kinds = list(KINDS)
    # every kind x every downstream on the basic key (2x2 / 3x2, int cells)
    for kind in kinds:
        for down in DOWN:
            strict = kind == 'strict'
            a = ['ki', 'ki'] if strict else ['ii', 'ii']
            b = ['ki', 'ki'] if strict else ['ii', 'ii']
            quick = (kind, down) in (('join', 'a1b2'), ('inner', 'star'), ('left', 'bstar'), ('leftouter', 'whereb'), ('strict', 'a1b2'), ('left', 'orderb'), ('inner', 'group'),
                                     ('left', 'update'), ('inner', 'update2'), ('join', 'unnest'), ('left', 'bnr'), ('strict', 'update'), ('inner', 'top1'), ('left', 'distinct'),
                                     ('inner', 'updateNU'), ('leftouter', 'orderbdesc'))
            _add('%s[a1b1|%s]' % (kind, down), kind, 'a1b1', down, a, b, quick=quick, krange=2)
    # every key spelling x a rotating kind, on select a1,b2 / star / update
    for key in KEYS:
        if key == 'a1b1':
            continue
        for down in ('a1b2', 'star', 'update'):
            kind = kinds[n % len(kinds)]
            n += 1
            w = 3 if key == 'three' else 2
            strict = kind == 'strict'
            cell = 'k' if (strict or 'NR' in key) else 'i'
            a = [cell * w, cell * w]
            b = [cell * w, cell * w]
            if 'NR' in key:
                kw = dict(krange=3)
            else:
                kw = dict(krange=2)
            quick = (key, down) in (('b1a1', 'a1b2'), ('a1b1+a1b2', 'a1b2'), ('a1b1+a1b2', 'star'), ('NRbNR+NRb1', 'a1b2'), ('two', 'star'), ('a1b1+NR', 'a1b2'), ('a1b1+NR', 'star'), ('a1bNR+a2b1', 'a1b2'), ('NR+a1b1', 'update'), ('NRbNR', 'a1b2'), ('aNRb1', 'update'), ('a1=b1', 'update'), ('three', 'a1b2'), ('a1bNR', 'star'), ('twoX', 'a1b2'), ('a.NRb.NR', 'star'))
            _add('%s[%s|%s]' % (kind, key, down), kind, key, down, a, b, quick=quick, **kw)
    # ragged B (short record must raise), ragged A (missing key field), empty tables, duplicate-heavy 3x3
    _add('inner[a2b1|raggedA]', 'inner', 'a2b1', 'a1b2', ['ii', 'i'], ['ii', 'ii'], quick=True)
    _add('left[two|raggedB]', 'left', 'two', 'star', ['ii', 'ii'], ['ii', 'i'], quick=True)
    _add('left[a1b1|raggedBwide]', 'left', 'a1b1', 'bstar', ['ii', 'ii'], ['i', 'iii'], quick=True)
    # LEFT JOIN null record: as wide as the WIDEST B record, whatever the order of the widths
    for nm, bshape in (('w3-1-2', ['kkk', 'k', 'kk']), ('w1-3-2-1', ['k', 'kkk', 'kk', 'k']), ('w2-3-1-2', ['kk', 'kkk', 'k', 'kk'])):
        _add('left[a1b1|nullwidth-%s]' % nm, 'left', 'a1b1', 'bnr', ['kk', 'kk'], bshape, quick=(nm == 'w3-1-2'), krange=2)
        _add('leftouter[a1b1|nullwidth-star-%s]' % nm, 'leftouter', 'a1b1', 'star', ['kk'], bshape, quick=(nm != 'w3-1-2'), krange=3)
    # None is a key value like any other (single-key joins; None in the FIRST A records)
    for kind in ('inner', 'left', 'strict'):
        _add('%s[a1b1|nonekey]' % kind, kind, 'a1b1', 'a1b2', ['ni', 'oi', 'ni'], ['ni', 'oi'], quick=(kind != 'strict'), slen=1)
    _add('left[a1b1|emptyB-update]', 'left', 'a1b1', 'update', ['ii', 'ii'], [], quick=True)
    _add('left[a1b1|emptyB-updateNU]', 'left', 'a1b1', 'updateNU', ['ii', 'ii'], [], quick=True)
    _add('left[NRbNR|emptyrowB-update]', 'left', 'NRbNR', 'update', ['kk', 'kk'], ['', 'kk'], quick=True, krange=3)
    _add('left[a1b1|emptyB]', 'left', 'a1b1', 'star', ['ii', 'ii'], [])
    _add('inner[a1b1|emptyA]', 'inner', 'a1b1', 'star', [], ['ii'])
    _add('strict[a1b1|emptyB]', 'strict', 'a1b1', 'a1b2', ['ki'], [], krange=2)
    for kind in ('inner', 'left', 'strict'):
        _add('%s[a1b1|3x3]' % kind, kind, 'a1b1', 'a1b2', ['ki', 'ki', 'ki'], ['ki', 'ki', 'ki'], krange=2)
        _add('%s[a1b1|3x2upd]' % kind, kind, 'a1b1', 'update', ['ki', 'ki', 'ki'], ['ki', 'ki'], krange=2)
    # string keys (one small shard) and string payloads
    _add('inner[a1b1|strkey]', 'inner', 'a1b1', 'a1b2', ['si'], ['si', 'si'], quick=True, slen=1)
    _add('left[a1b1|strkey]', 'left', 'a1b1', 'star', ['si', 'si'], ['si'], slen=1)
    _add('left[a1b1|strpayload]', 'left', 'a1b1', 'star', ['is', 'is'], ['is', 'is'], quick=True)
    _add('inner[two|nonekeys]', 'inner', 'two', 'star', ['io', 'io'], ['io'], quick=True, slen=1)


_build()


def selfcheck():
    from vf.refmodel import relcheck
    return relcheck.check()


def obligations(tier, seed):
    obs = []
    quick = tier == 'quick'
    rot = set(qh.rotating([n for n in CASES if not SPEC[n][3]], seed, 8)) if quick else set()
    for name in CASES:
        a, b, kw, isq = SPEC[name]
        if quick and not isq and name not in rot:
            continue
        obs.append(qh.query_obl('C04', name, CASES[name], a, b, timeout=150 if quick else 900, **kw))
        if not quick and len(a) == 2 and len(b) == 2 and '|a1b2]' in name:
            obs.append(qh.query_obl('C04', name, CASES[name], a + [a[0]], b + [b[0]], timeout=1200, **kw))
    return obs
