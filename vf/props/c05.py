"""C05 -- UPDATE emits every record once, changing only assigned fields of matching rows.

Decided by CrossHair over the real rbql_engine.query_table (translate_update_expression, safe_set, both UPDATE templates):
concrete UPDATE family, symbolic cells and ragged shapes; oracle = reference (one output record per input record, same width,
right-hand sides evaluated on the ORIGINAL record, NU = records updated so far, missing target field fails naming the record).
"""
from vf import qh
from vf.qlib import *  # noqa

INFO = {
    'explanation': 'Each obligation: for EVERY table of the stated (possibly ragged) shape the UPDATE query yields one record per input record in order, with the '
                   'same width, unchanged where WHERE fails (or no join partner), and otherwise exactly the assigned fields replaced by their right-hand sides '
                   'evaluated against the original values; NU counts updated records; assigning to an absent field raises RbqlRuntimeError naming the first such record.',
    'bounds': 'tables <= 3 rows x 1..3 fields (ragged shards), cells str len <= 2 or None; 1..3 assignments; targets aN, a[N], a.name, a["name"]; with/without SET and WHERE; INNER/LEFT JOIN (2x2)',
    'outside': 'symbolic query text; more rows / longer cells; JS twin (known to alias input rows, C19 n/a)',
    'assumptions': ['CrossHair models of str/list faithful to CPython'],
    'trusted': ['crosshair-tool 0.0.110', 'z3', 'CPython 3.12.1'],
}

HA = ['id', 'name val', 'x']
U = {
    'a1=a2': [('a1', 0, 'a2', lambda e: e.a(2))],
    'swap': [('a1', 0, 'a2', lambda e: e.a(2)), ('a2', 1, 'a1', lambda e: e.a(1))],
    'rot3': [('a1', 0, 'a2', lambda e: e.a(2)), ('a2', 1, 'a3', lambda e: e.a(3)), ('a3', 2, 'a1', lambda e: e.a(1))],
    'a[2]=lit': [('a[2]', 1, "'x,y'", lambda e: 'x,y')],
    'a2=cat': [('a2', 1, "a1 + ',' + a2", lambda e: e.a(1) + ',' + e.a(2))],
    'fmt': [('a1', 0, '"{},{}".format(a2, a1)', lambda e: '{},{}'.format(e.a(2), e.a(1))), ('a[2]', 1, 'max(len(a1), 1)', lambda e: max(len(e.a(1)), 1))],
    'a3=lit': [('a3', 2, '"z"', lambda e: 'z')],
    'a2,a3': [('a2', 1, 'a1', lambda e: e.a(1)), ('a3', 2, 'a2', lambda e: e.a(2))],
    'NU': [('a1', 0, 'NU', lambda e: e.NU)],
    'NU,NR': [('a2', 1, 'NU * 10 + NR', lambda e: e.NU * 10 + e.NR), ('a1', 0, 'NF', lambda e: e.NF)],
    'eq-in-rhs': [('a1', 0, 'a1 == a2', lambda e: e.a(1) == e.a(2)), ('a2', 1, "a2 != 'x'", lambda e: e.a(2) != 'x')],
    'eq-after-comma': [('a1', 0, '(a2, a1 == a2)[0]', lambda e: e.a(2)), ('a2', 1, 'str(all([a1 == "x", a2 == "y"]))', lambda e: str(all([e.a(1) == 'x', e.a(2) == 'y'])))],
    'same-twice': [('a1', 0, "'p'", lambda e: 'p'), ('a1', 0, 'a1', lambda e: e.a(1))],
}
UH = {
    'a.id': [('a.id', 0, 'a.x', lambda e: e.an('x'))],
    'a["name val"]': [('a["name val"]', 1, 'a.id', lambda e: e.an('id')), ('a.x', 2, "a['name val']", lambda e: e.an('name val'))],
    "a['x'],a2": [("a['x']", 2, 'a1', lambda e: e.a(1)), ('a2', 1, 'a[3]', lambda e: e.a(3))],
}
WH = {None: None, 'nex': W_NEX, 'odd': W_ODD, 'nf2': ('NF >= 2', lambda e: e.NF >= 2), 'a2x': ("a2 == 'x'", lambda e: e.a(2) == 'x'),
      'or': ("a1 == 'x' or NR == 2", lambda e: e.a(1) == 'x' or e.NR == 2)}
CASES = {}
SPEC = {}


def _add(name, q, a, b=None, quick=False, **kw):
    assert name not in CASES, name
    CASES[name] = q
    SPEC[name] = (a, b, kw, quick)


def _build():
    n = 0
    shapes2 = [['so', 'os'], ['os', 's'], ['s', 'oso', 'so'], ['sso', 'os', 'sss'], ['oso'], []]
    wkeys = list(WH)
    for k, upd in U.items():
        for j in range(3):
            w = wkeys[(n + j) % len(wkeys)]
            shape = shapes2[(n + 2 * j) % len(shapes2)]
            if k in ('fmt', 'a2=cat'):
                shape = [['so', 'os'], ['os', 's'], ['oso']][j]   # str.format / concatenation of symbolic strings: small shapes
            setkw = (n + j) % 2 == 0
            quick = True
            _add('upd[%s|w=%s|set=%d|%s]' % (k, w, setkw, qh.shape_name(shape)), Q(update=upd, where=WH[w], update_set=setkw), shape, quick=quick)
        n += 1
    for k in ('a1=a2', 'NU', 'a3=lit'):
        for w in (None, 'nf2', 'or'):
            _add('upd[%s|w=%s|emptyrow]' % (k, w), Q(update=U[k], where=WH[w]), ['so', '', 'sss', ''], quick=True)
    for k, upd in UH.items():
        for j, w in enumerate((None, 'odd')):
            shape = [['oss', 'sso'], ['sso', 'os', 'sss']][j]
            _add('updh[%s|w=%s]' % (k, w), Q(update=upd, where=WH[w], ha=HA, update_set=bool(j)), shape, quick=True)
    # with joins
    jw = ('b2 is not None', lambda e: e.b(2) is not None)
    jor = ("a2 == 'x' or b2 is None", lambda e: e.a(2) == 'x' or e.b(2) is None)
    jif = ("True if b1 is None else a2 != 'x'", lambda e: True if e.b(1) is None else e.a(2) != 'x')
    _add('updj[left|emptyB|NU]', Q(update=[('a1', 0, 'NU', lambda e: e.NU), ('a2', 1, 'b1', lambda e: e.b(1))], join=join('LEFT JOIN')), ['ks', 'ks'], [], quick=True, krange=2)
    _add('updj[left|emptyB|w]', Q(update=[('a2', 1, "'u'", lambda e: 'u')], where=('b2 is None', lambda e: e.b(2) is None), join=join('LEFT JOIN')), ['ks', 'ks'], [], quick=True, krange=2)
    for kind in ('INNER JOIN', 'LEFT JOIN', 'JOIN'):
        for k in ('swap', 'NU'):
            upd = U[k] if k != 'swap' else [('a1', 0, 'b2', lambda e: e.b(2)), ('a2', 1, 'a1', lambda e: e.a(1))]
            for wn, w in ((None, None), ('b2', jw), ('or', jor), ('ifelse', jif)):
                _add('updj[%s|%s|w=%s]' % (kind.split()[0].lower(), k, wn), Q(update=upd, where=w, join=join(kind)), ['ko', 'ks'], ['ks', 'ko'],
                     quick=True, krange=2)


_build()


def selfcheck():
    from vf.refmodel import relcheck
    return relcheck.check()


def obligations(tier, seed):
    obs = []
    quick = tier == 'quick'
    for name in CASES:
        a, b, kw, isq = SPEC[name]
        if quick and not isq:
            continue
        obs.append(qh.query_obl('C05', name, CASES[name], a, b, timeout=150 if quick else 900, check_sources=True, mutate_output=True, **kw))
        if not quick:
            # deeper shards: every string cell may also be None; one more (ragged) row
            a2 = [r.replace('s', 'o') for r in a]
            if a2 != a:
                obs.append(qh.query_obl('C05', name, CASES[name], a2, b, timeout=1200, tag='+none', **kw))
            if 0 < len(a) < 3:
                obs.append(qh.query_obl('C05', name, CASES[name], a + [a[0][:-1] if len(a[0]) > 1 else a[0]], b, timeout=1200, tag='+row', **kw))
            if b:
                obs.append(qh.query_obl('C05', name, CASES[name], a, b + [b[0]], timeout=1200, tag='+brow', **kw))
    return obs
