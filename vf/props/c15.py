"""C15 -- Broken pipes, bad bytes and errors are handled cleanly at every point.

Decided by CrossHair with fault-injecting stubs whose fault position is a SYMBOLIC integer:
 * PipeOut(k): the output stream raises BrokenPipeError from its k-th write call on  -> the query returns normally, what reached
   the stream is a prefix of the fault-free output, the stream is not written again, input is not pulled again (streaming);
 * DecodeFailIn(k): the input stream raises UnicodeDecodeError from its k-th read on -> RbqlIOHandlingError, never a raw exception;
 * query_csv with a tracking in-memory file system: every file opened is closed on success / parse error / runtime error / IO error;
 * a recording user writer that refuses its m-th write: set_header at most once and first, no write after a False, finish exactly
   once iff the run did not raise.
"""
from vf.engine import Obl
from vf.gen import harness, indent, str_params
from vf import qh

INFO = {
    'explanation': 'Fault positions (write index k, read index k, refusal index m) and table cells / file texts are symbolic; each obligation covers EVERY fault position and every '
                   'table / text of the stated shape for one query shape (streaming, sorted, aggregated, distinct-count, unnest, update, with header).',
    'bounds': 'tables <= 3 rows of ints; k, m any non-negative integer; CSV texts of 2 lines x <= 2 characters; chunk sizes 1 and 1024'
        '; writer protocol also for the empty table and for queries selecting nothing; file-descriptor clause also with a missing input path',
    'outside': 'the real UTF-8 decoder at byte positions (io.TextIOWrapper, C); real pipes and file descriptors (/proc/self/fd); sys.stdout closing in CSVWriter.finish',
    'assumptions': ['open / os.path / encode_*_stream of rbql_csv replaced by an in-memory tracking file table (file-system semantics trusted)',
                    'BrokenPipeError / UnicodeDecodeError are injected by stubs at call granularity'],
    'trusted': ['crosshair-tool 0.0.110', 'z3', 'CPython 3.12.1'],
}

PIPE_QUERIES = {
    'stream': ('select a1, a2', False),
    'stream+where': ('select a2, NR where a1 >= "0"', False),
    'sorted': ('select a1, a2 order by a1', False),
    'aggregated': ('select a1, count(*) group by a1', False),
    'distinct': ('select distinct a1', False),
    'distinct-count': ('select distinct count a1', False),
    'unnest': ('select NR, unnest([a1, a2])', False),
    'update': ('update set a2 = a1', False),
    'top': ('select top 2 a1, a2', False),
    'header': ('select a1, a2', True),
    'header+sorted': ('select a2 as x, a1 order by a2 desc', True),
    'header+update': ('update a1 = NR', True),
}


def _pipe_obl(qname, rows, policy, timeout, close_on_finish=False):
    query, header = PIPE_QUERIES[qname]
    pa, pb, po, texpr = qh.table_params('a', (['cc'] if policy == 'quoted' else ['cz', 'cc', 'cz'][:rows]) if rows <= 3 else None)
    rows = 1 if policy == 'quoted' else rows
    streaming = qname in ('stream', 'stream+where', 'unnest', 'update', 'top', 'distinct')
    body = indent('''
T = %s
H = ['c1', 'c2'] if HEADER else None
# fault-free run (same real code) gives the full output
full = stubs.StubOut()
rbql_engine.query(QUERY, rbql_engine.TableIterator(qh.copy_table(T), H), rbql_csv.CSVWriter(full, False, None, ',', POLICY), [])
# faulty run
pipe = stubs.PipeOut(k)
seen_fault = []
it = stubs.CountingIterator(T, hook=lambda n: seen_fault.append(pipe.calls > pipe.fail_at))
if HEADER:
    it.get_header = lambda: H
w = rbql_csv.CSVWriter(pipe, CLOSE_ON_FINISH, None, ',', POLICY)
try:
    rbql_engine.query(QUERY, it, w, [])
    status = 'returned'
except Exception as e:  # noqa
    status = 'raised ' + type(e).__name__
text = pipe.text()
is_prefix = full.text().startswith(text)
header_fault = HEADER and k < 2
extra_writes_ok = pipe.calls_after_fault <= (1 if header_fault else 0)
pulls_after_fault = len([x for x in seen_fault if x])
pulled_ok = (pulls_after_fault <= (1 if header_fault else 0)) if STREAMING else True
complete_ok = (text == full.text()) if pipe.calls <= pipe.fail_at else True
return ((status, is_prefix, extra_writes_ok, pulled_ok, complete_ok), ('returned', True, True, True, True))
''' % texpr)
    imports = 'from vf import qh\nfrom vf import csvh\nQUERY = %r\nHEADER = %r\nPOLICY = %r\nSTREAMING = %r\nCLOSE_ON_FINISH = %r\n' % (query, header, policy, streaming, close_on_finish)
    src = harness(imports, [('k', 'int')] + pa, ['k >= 0'] + pb + po, body)
    return Obl('pipe[%s,%s,rows=%d%s]' % (qname, policy, rows, ',owned-stream' if close_on_finish else ''), src, timeout=timeout,
               meta={'query': query, 'bounds': 'every write index k >= 0 at which the pipe breaks x every %d-row table of 1-character strings' % rows})


def _decode_obl(policy, lens, chunk, header, via_query, timeout):
    params, pre, exprs = [], [], []
    for i, l in enumerate(lens):
        p_, pre_, e_ = str_params('l%d' % i, l)
        params += p_
        pre += pre_
        exprs.append(e_)
    body = indent('''
text = chr(10).join([%s]) + chr(10)
stream = stubs.DecodeFailIn([text], k)
out = []
try:
    it = rbql_csv.CSVRecordIterator(stream, 'utf-8', ',', POLICY, HEADER, chunk_size=CHUNK)
    if VIA_QUERY:
        rbql_engine.query('select *', it, rbql_engine.TableWriter(out), [])
        got = ('ok', out)
    else:
        got = ('ok', it.get_all_records())
except rbql_engine.RbqlIOHandlingError as e:
    got = ('io', e.args[0])
except UnicodeDecodeError:
    got = ('raw UnicodeDecodeError',)
faulted = stream.reads > stream.fail_at
if faulted:
    exp = ('io', 'Unable to decode input table as UTF-8. Use binary (latin-1) encoding instead')
    if got[0] == 'io' and not got[1].startswith('Unable to decode input table as UTF-8'):
        # a quoting error found BEFORE the bad byte is reached is a legitimate IO-handling error as well
        ref = csvref.expected_read(text, ',', POLICY, HEADER, None, 'utf-8')
        exp = ref if ref[0] == 'io' else exp
    return ((got, stream.reads_after_fault), (exp, 0))
ref = csvref.expected_read(text, ',', POLICY, HEADER, None, 'utf-8')
exp = ('ok', ref[1]) if ref[0] == 'ok' else ref
return ((got, 0), (exp, 0))
''' % ', '.join(exprs))
    imports = 'from vf import csvh\nfrom vf.refmodel import csvref\nPOLICY = %r\nCHUNK = %r\nHEADER = %r\nVIA_QUERY = %r\n' % (policy, chunk, header, via_query)
    src = harness(imports, [('k', 'int')] + params, ['k >= 0'] + pre + ['%s != 10 and %s != 13' % (n, n) for n, _t in params], body)
    return Obl('decode[%s,lines=%s,chunk=%d,hdr=%d,query=%d]' % (policy, '+'.join(map(str, lens)), chunk, header, via_query), src, timeout=timeout,
               meta={'function': 'rbql_csv.CSVRecordIterator over a stream failing at its k-th read', 'bounds': 'every k >= 0 x every text with line lengths %s' % (lens,)})


FS_SRC = '''
import types

class FakeFile(object):
    def __init__(self, fs, path, text, mode):
        self.fs = fs
        self.path = path
        self.mode = mode
        self.inp = stubs.PieceIn([text]) if text is not None else None
        self.parts = []
        self.closed = False
    def read(self, n=-1):
        return self.inp.read(n)
    def write(self, s):
        self.parts.append(s)
    def flush(self):
        pass
    def close(self):
        self.closed = True

class FakeFS(object):
    """In-memory file table with open/close tracking, bound into rbql_csv in place of open / os."""
    def __init__(self, files):
        self.files = files
        self.handles = []
    def open(self, path, mode='r'):
        if 'w' in mode:
            h = FakeFile(self, path, None, mode)
        else:
            if path not in self.files:
                raise IOError('no such file ' + path)
            h = FakeFile(self, path, self.files[path], mode)
        self.handles.append(h)
        return h
    def exists(self, path):
        return path in self.files

def install_fs(fs):
    path = types.SimpleNamespace(exists=fs.exists, expanduser=lambda p: p.replace('~', '/home/u'), isabs=lambda p: p.startswith('/'),
                                 join=lambda a, b: a.rstrip('/') + '/' + b, dirname=lambda p: p.rsplit('/', 1)[0] if '/' in p else '', basename=lambda p: p.rsplit('/', 1)[-1])
    rbql_csv.os = types.SimpleNamespace(path=path)
    rbql_csv.open = fs.open
'''

FD_SCENARIOS = {
    'success': ('select a1, a2', 'quoted'),
    'success-join': ('select a1, b1 join B.csv on a1 == b1', 'quoted'),
    'parse-error': ('select a1 where a2 = 3', 'quoted'),
    'runtime-error': ('select [0][len(a1)], a2', 'quoted'),
    'runtime-error-join': ('select [0][len(b1)] left join B.csv on a1 == b1', 'quoted'),
    'io-error-input': ('select a1', 'quoted_rfc'),
    'io-error-join': ('select a1, b1 join B.csv on a1 == b1', 'quoted_rfc'),
    'missing-join-table': ('select a1 join nosuch.csv on a1 == b1', 'quoted'),
    'update': ('update set a1 = NR', 'quoted'),
    'empty-result-distinct-count': ('select distinct count a1 where NR < 0', 'quoted'),
    'missing-input': ('select a1', 'quoted'),                    # the output file is opened first, then opening the input fails
    'missing-input-join': ('select a1, b1 join B.csv on a1 == b1', 'quoted'),
}


def _fd_obl(scn, lens, timeout):
    query, policy = FD_SCENARIOS[scn]
    params, pre, exprs = [], [], []
    for i, l in enumerate(lens):
        p_, pre_, e_ = str_params('l%d' % i, l)
        params += p_
        pre += pre_
        exprs.append(e_)
    body = indent('''
lines = [%s]
text_a = chr(10).join(lines) + chr(10)
text_b = chr(10).join(reversed(lines)) + chr(10)
fs = FakeFS({'/d/A.csv': text_a, '/d/B.csv': text_b})
install_fs(fs)
warnings = []
try:
    rbql_csv.query_csv(QUERY, INPUT, ',', POLICY, '/d/out.csv', ',', POLICY, 'utf-8', warnings, with_headers)
    status = 'ok'
except (rbql_engine.RbqlParsingError, rbql_engine.RbqlRuntimeError, rbql_engine.RbqlIOHandlingError) as e:
    status = type(e).__name__
except IOError as e:
    status = 'IOError'      # opening a path failed: whatever was opened before must still be closed
opened = len(fs.handles)
still_open = [h.path for h in fs.handles if not h.closed]
return ((still_open, opened >= MIN_OPENED), ([], True))
''' % ', '.join(exprs))
    missing = scn.startswith('missing-input')
    imports = 'from vf import csvh\nQUERY = %r\nPOLICY = %r\nINPUT = %r\nMIN_OPENED = %d\n' % (query, policy, '/d/nosuch.csv' if missing else '/d/A.csv', 1 if missing else 2)
    src = harness(imports, [('with_headers', 'bool')] + params, pre + ['%s != 10 and %s != 13' % (n, n) for n, _t in params], body, extra_defs=FS_SRC)
    return Obl('files_closed[%s,lines=%s]' % (scn, '+'.join(map(str, lens))), src, timeout=timeout,
               meta={'query': query, 'function': 'rbql_csv.query_csv', 'bounds': 'every input/join file text with line lengths %s, header flag both ways' % (lens,)})


PROTO_QUERIES = {
    'stream': 'select a1, a2', 'sorted': 'select a1 order by a2', 'aggregated': 'select a1, count(*) group by a1', 'distinct-count': 'select distinct count a1',
    'distinct+top': 'select top 2 distinct a1', 'unnest': 'select NR, unnest([a1, a2, a1])', 'update': 'update a2 = 7', 'runtime-error': 'select 10 // a1',
    'parse-error': 'select a1 where a2 = 3', 'join': 'select a1, b2 join b on a1 == b1', 'alias-header': 'select a1 as x, a2',
    # nothing is selected: the wrapping writers must still pass finish() down exactly once
    'distinct-count-none': 'select distinct count a1 where a2 > 5', 'distinct-none': 'select distinct a1 where a2 > 5', 'sorted-none': 'select a1 where a2 > 5 order by a1',
    'aggregated-none': 'select a1, count(*) where a2 > 5 group by a1', 'top0': 'select top 0 a1',
}


def _proto_obl(qname, rows, timeout):
    query = PROTO_QUERIES[qname]
    pa, pb, po, texpr = qh.table_params('a', ['kk'] * rows, krange=3)
    body = indent('''
T = %s
w = stubs.RecWriter(refuse_at=(m if m >= 0 else None))
reg = rbql_engine.ListTableRegistry([rbql_engine.ListTableInfo('b', [[0, 5], [1, 6], [1, 7]], None)])
try:
    rbql_engine.query(QUERY, rbql_engine.TableIterator(T), w, [], reg)
    raised = False
except (rbql_engine.RbqlParsingError, rbql_engine.RbqlRuntimeError, rbql_engine.RbqlIOHandlingError):
    raised = True
ev = w.events
n_header = len([x for x in ev if x == 'H'])
first_write = min([i for i, x in enumerate(ev) if x in ('w+', 'w-')] + [len(ev)])
header_first = all(i < first_write for i, x in enumerate(ev) if x == 'H')
refusals = [i for i, x in enumerate(ev) if x == 'w-']
no_write_after_refusal = (not refusals) or all(x not in ('w+', 'w-') for x in ev[refusals[0] + 1:])
n_finish = len([x for x in ev if x == 'F'])
finish_ok = (n_finish == 0) if raised else (n_finish == 1 and ev[-1] == 'F')
return ((n_header <= 1, header_first, no_write_after_refusal, finish_ok), (True, True, True, True))
''' % texpr)
    imports = 'QUERY = %r\n' % query
    src = harness(imports, [('m', 'int')] + pa, ['m >= -1'] + pb + po, body)
    return Obl('writer_protocol[%s,rows=%d]' % (qname, rows), src, timeout=timeout,
               meta={'query': query, 'bounds': 'every refusal index m (none, or any write) x every %d-row table of ints 0..2' % rows})


def obligations(tier, seed):
    obs = []
    quick = tier == 'quick'
    t = 200 if quick else 1200
    for qn in PIPE_QUERIES:
        for rows in ((2,) if quick else (1, 2, 3)):
            obs.append(_pipe_obl(qn, rows, 'quoted' if (len(qn) + rows) % 2 else 'simple', t))
    for qn in ('stream', 'sorted', 'aggregated', 'header') if quick else list(PIPE_QUERIES):
        obs.append(_pipe_obl(qn, 2, 'simple', t, close_on_finish=True))    # the writer owns the stream: close() flushes and fails again on a broken pipe
    for policy, lens, chunk, header, vq in ([('quoted', (1, 1), 1024, False, False), ('quoted', (2, 1), 1, False, True), ('quoted_rfc', (1, 2), 1, True, False), ('simple', (2, 2), 2, False, True),
                                            ('quoted', (0, 2), 1, True, True)] if quick else
                                           [(p, l, c, h, v) for p in ('quoted', 'quoted_rfc', 'simple') for l in ((1, 1), (2, 1), (1, 2), (2, 2), (3,), (0, 2, 1)) for c in (1, 2, 1024) for h, v in ((False, False), (True, True))]):
        obs.append(_decode_obl(policy, lens, chunk, header, vq, t))
    for scn in FD_SCENARIOS:
        for lens in (((1, 1),) if quick else ((1, 1), (2, 1), (1, 2), (0, 1, 1))):
            obs.append(_fd_obl(scn, lens, t))
    for qn in PROTO_QUERIES:
        for rows in ((0, 2) if quick else (0, 1, 2, 3)):
            obs.append(_proto_obl(qn, rows, t))
    seen, uniq = set(), []
    for o in obs:
        if o.name not in seen:
            seen.add(o.name)
            uniq.append(o)
    return uniq
