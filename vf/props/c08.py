"""C08 -- Query meaning is invariant under spelling; string literals are opaque.

Relational obligations: each base query (structural description with reference semantics) is rendered in many SPELLINGS produced
by compositions of the transformations named in the property; every spelling is executed by the real engine on one SYMBOLIC table
and must equal the reference semantics of the base query (rows, header, warnings, error class / record).  The spelling dimension
is enumerated (a program dimension); the solver decides the data dimension.
Literal opacity: (i) lemma over the real separate_string_literals / combine_string_literals with SYMBOLIC literal content (the
scanner's back-reference is expanded mechanically per quote alternative, derived from the pattern found in the source at run time
and validated against the original regex); (ii) end to end with hostile concrete literal contents and a symbolic table.
"""
import random
import re

from vf import qh
from vf.engine import Obl
from vf.gen import harness, indent, str_params
from vf.qlib import *  # noqa
from vf.refmodel import rel

INFO = {
    'explanation': 'Spelling obligations: for EVERY table of the stated shape, query_table(<respelled text>) equals the reference semantics of the base query. Transformations composed: '
                   'keyword case (per keyword), clause order, extra spaces / tabs / line breaks, full-line # comments, trailing semicolons, aN <-> a[N], TOP <-> LIMIT, JOIN <-> INNER JOIN, '
                   'LEFT <-> LEFT OUTER JOIN, = <-> == and swapped sides in ON, redundant FROM a / UPDATE a SET.  Literal lemma: for EVERY literal content (no quote char of its own kind, no '
                   'backslash; second shard with escaped quotes) the scanner extracts exactly that literal and the combiner restores it verbatim.',
    'bounds': 'spelling family: 14 base queries x 6 (quick) / 24 (thorough) random compositions per base (seeded by VERIF_SEED); tables 2-3 rows; literal content: symbolic, length <= 3 (quick) / 4; '
              'end-to-end hostile literal list of 28 contents in both quote styles'
        '; literal pairs with 1..4 trailing backslashes; literal content over a 20-member class of blank / line-boundary characters end to end (solver-enumerated)',
    'outside': 'symbolic query text as a whole (compile() is a C entry point); literal contents containing RBQL\'s own placeholder token; triple-quoted literals; JS twin',
    'assumptions': ['back-reference expansion of the literal scanner regex is equivalent to the original (validated per run on concrete vectors under the real re module)'],
    'trusted': ['crosshair-tool 0.0.110', 'z3', 'CPython 3.12.1 re'],
}

# ------------------------------------------------------------------ base queries
A2I = lambda e: e.a(2)  # noqa
BASES = {
    'sel-where': (Q(items=[fa(1), fa(2), NR], where=('a2 >= 0', lambda e: e.a(2) >= 0)), ['ii', 'ii'], None),
    'sel-where-order-top': (Q(items=[fa(2), fa(1)], where=('a1 != 3', lambda e: e.a(1) != 3), order=[('a2', A2I)], top=2), ['ii', 'ii', 'ii'], None),
    'sel-where-order-desc-limit': (Q(items=[fa(1), fa(2)], where=('a1 != 3', lambda e: e.a(1) != 3), order=[('a2', A2I)], desc=True, order_suffix='DESC', top=2, top_kw='LIMIT'), ['ii', 'ii', 'ii'], None),
    'join-order-desc': (Q(items=[fa(2), fb(2), NR], join=join('LEFT JOIN'), order=[('a2', A2I)], desc=True, order_suffix='DESC'), ['ki', 'ki'], ['ki']),
    'sel-top0': (Q(items=[fa(1), NR], top=0, where=('a2 >= 0', lambda e: e.a(2) >= 0)), ['ii', 'ii'], None),
    'sel-order-desc': (Q(items=[fa(1), NR], order=[('a1', lambda e: e.a(1))], desc=True, order_suffix='DESC'), ['ii', 'ii', 'ii'], None),
    'sel-distinct-limit': (Q(items=[fa(1)], distinct='distinct', top=1, top_kw='LIMIT'), ['ii', 'ii', 'ii'], None),
    'sel-distinct-count': (Q(items=[fa(2)], distinct='count', where=('a1 >= 0', lambda e: e.a(1) >= 0)), ['ii', 'ii'], None),
    'agg-group-where': (Q(items=[fa(1), agg('SUM', 'a2', A2I), Item('COUNT(*)', lambda e: 1, kind='agg', agg='COUNT')], group=[('a1', lambda e: e.a(1))], where=('a2 != 7', lambda e: e.a(2) != 7)), ['ii', 'ii', 'ii'], None),
    'agg-group-top': (Q(items=[fa(1), agg('MAX', 'a2', A2I)], group=[('a1', lambda e: e.a(1))], top=1), ['ii', 'ii'], None),
    'join-inner': (Q(items=[fa(1), fb(2), NR], join=join('JOIN'), where=('b2 >= 0', lambda e: e.b(2) >= 0)), ['ki', 'ki'], ['ki', 'ki']),
    'join-left-order': (Q(items=[fa(2), fb(2)], join=join('LEFT JOIN'), order=[('a2', A2I)]), ['ki', 'ki'], ['ki']),
    'join-two-keys': (Q(items=[STAR], join=join('INNER JOIN', ((0, 0), (1, 1)))), ['kk', 'kk'], ['kk', 'kk']),
    'join-strict': (Q(items=[fa(2), fb(2)], join=join('STRICT LEFT JOIN')), ['ki', 'ki'], ['ki', 'ki']),
    'update-where': (Q(update=[('a1', 0, 'a2', A2I), ('a2', 1, 'a1 + 1', lambda e: e.a(1) + 1)], where=('a1 >= 0', lambda e: e.a(1) >= 0)), ['ii', 'ii', 'i'], None),
    'update-join': (Q(update=[('a2', 1, 'b2', lambda e: e.b(2))], join=join('LEFT JOIN')), ['ki', 'ki'], ['ki']),
    'except-where': (Q(excpt=[0], excpt_text='a1', where=('a2 >= 0', lambda e: e.a(2) >= 0)), ['ii', 'ii'], None),
    'unnest-error': (Q(items=[NR, Item('unnest([a1, 10 // a2])', lambda e: [e.a(1), 10 // e.a(2)], kind='unnest')]), ['ii', 'ii'], None),
}
CASES = {k: v[0] for k, v in BASES.items()}


# ------------------------------------------------------------------ spelling transformations
def _case(word, mode, rnd):
    if mode == 'upper':
        return word.upper()
    if mode == 'lower':
        return word.lower()
    if mode == 'title':
        return word.title()
    return ''.join(c.upper() if rnd.random() < 0.5 else c.lower() for c in word)


def _vars(text, style):
    if style == 'array':
        return re.sub(r'\b([ab])([1-9][0-9]*)\b', r'\1[\2]', text)
    return text


def respell(q, rnd):
    """One random composition of the spelling transformations for query q.  Returns (text, description)."""
    modes = ['upper', 'lower', 'title', 'mixed']
    kw = lambda w: ' '.join(_case(p, rnd.choice(modes), rnd) for p in w.split(' '))  # noqa
    vstyle = rnd.choice(['plain', 'array'])
    desc = ['vars=' + vstyle]
    clauses = []
    head = ''
    use_limit = q.top is not None and rnd.random() < 0.5
    if q.top is not None:
        desc.append('limit' if use_limit else 'top')
    if q.update is not None:
        red = rnd.random() < 0.4
        head = kw('update') + ' ' + ((('a' if rnd.random() < 0.5 else 'A') + ' ' + kw('set') + ' ') if red else ((kw('set') + ' ') if rnd.random() < 0.5 else ''))
        if red:
            desc.append('UPDATE a SET')
        head += (', ' if rnd.random() < 0.5 else ' ,  ').join('%s %s %s' % (_vars(t, vstyle), '=', _vars(r, vstyle)) for t, _i, r, _f in q.update)
    else:
        head = kw('select') + ' '
        if q.top is not None and not use_limit:
            head += kw('top') + ' %d ' % q.top
        if q.distinct == 'distinct':
            head += kw('distinct') + ' '
        elif q.distinct == 'count':
            head += kw('distinct') + ' ' + kw('count') + ' '
        if q.excpt is not None:
            head += '* ' + kw('except') + ' ' + _vars(q.excpt_text, vstyle)
        else:
            parts = []
            for it in q.items:
                t = it.text if it.kind in ('star', 'astar', 'bstar') else _vars(it.text, vstyle)
                if it.kind == 'agg':
                    # aggregate names exist in upper, lower and capitalised spelling only
                    m = re.match(r'^([A-Za-z_]+)\((.*)\)$', t)
                    t = rnd.choice([m.group(1).upper(), m.group(1).lower(), m.group(1).capitalize()]) + '(' + m.group(2) + ')'
                parts.append(t)
            head += (', ' if rnd.random() < 0.6 else ',').join(parts)
        if rnd.random() < 0.35:
            head += ' ' + kw('from') + ' ' + rnd.choice(['a', 'A'])
            desc.append('FROM a')
    if q.join is not None:
        kind = q.join.kind
        syn = {'JOIN': ['JOIN', 'INNER JOIN'], 'INNER JOIN': ['JOIN', 'INNER JOIN'], 'LEFT JOIN': ['LEFT JOIN', 'LEFT OUTER JOIN'], 'LEFT OUTER JOIN': ['LEFT JOIN', 'LEFT OUTER JOIN'],
               'STRICT LEFT JOIN': ['STRICT LEFT JOIN']}[kind]
        kind = rnd.choice(syn)
        pairs = []
        for aref, bref in q.join.pairs:
            at = 'NR' if aref == 'NR' else _vars('a%d' % (aref + 1), vstyle)
            bt = 'bNR' if bref == 'NR' else _vars('b%d' % (bref + 1), vstyle)
            op = rnd.choice(['==', '=', ' == ', ' = '])
            pairs.append((bt + op + at) if rnd.random() < 0.5 else (at + op + bt))
        clauses.append(kw(kind) + ' ' + rnd.choice(['b', 'B']) + ' ' + kw('on') + ' ' + (' ' + kw('and') + ' ').join(pairs))
        desc.append(kind)
    if q.where is not None:
        clauses.append(kw('where') + ' ' + _vars(q.where[0], vstyle))
    if q.group is not None:
        clauses.append(kw('group by') + ' ' + ', '.join(_vars(t, vstyle) for t, _f in q.group))
    if q.order is not None:
        suffix = ''
        if q.desc:
            suffix = ' ' + kw('desc')
        elif rnd.random() < 0.5:
            suffix = ' ' + kw('asc')
        clauses.append(kw('order by') + ' ' + ', '.join(_vars(t, vstyle) for t, _f in q.order) + suffix)
    if q.top is not None and use_limit:
        clauses.append(kw('limit') + ' %d' % q.top)
    rnd.shuffle(clauses)
    desc.append('order=' + '/'.join(c.split(' ')[0].lower() for c in clauses))
    seps = [' ', '  ', '\t', '\n', ' \n', '\n\t ', '   ', ' \t ', '  ']
    use_comments = rnd.random() < 0.4
    text = rnd.choice(['', ' ', '\n', '\t']) + head
    for c in clauses:
        sep = rnd.choice(seps)
        if use_comments and rnd.random() < 0.6:
            sep = '\n' + rnd.choice(['# where a1 == 5 order by a2', '  # select * from b', '#;', '#']) + '\n' + rnd.choice(['', ' ', '\t'])
        text += sep + c
    text += rnd.choice(['', ';', ';;', ' ;', '\n;', ' ', '\n'])
    if use_comments:
        text = '# leading comment; select 1\n' + text + '\n# trailing comment'
        desc.append('comments')
    return text, ' '.join(desc)


# ------------------------------------------------------------------ literal opacity
def selfcheck():
    """The expanded regex agrees with the original one (real re, concrete vectors) -- validates the lowering, not the implementation."""
    from vf import relower
    ns = {'expand_backreference': relower.expand_backreference}
    original = r'''(\"\"\"|\'\'\'|\"|\')((?<!\\)(\\\\)*\\\1|.)*?\1'''
    ex = ns['expand_backreference'](original)
    if ex is None:
        return 'back-reference expansion does not apply to the documented scanner pattern'
    rnd = random.Random(7)
    alpha = ['"', "'", '\\', 'a', ' ', ',', '#']
    for _ in range(4000):
        s = ''.join(rnd.choice(alpha) for _ in range(rnd.randint(0, 10)))
        a = [m.span() for m in re.finditer(original, s)]
        b = [m.span() for m in re.finditer(ex, s)]
        if a != b:
            return 'expanded scanner regex disagrees with the original on %r: %r vs %r' % (s, b, a)
    from vf.refmodel import relcheck
    return relcheck.check()


def _literal_lemma_obl(quote, L, pre_text, post_text, escaped, timeout):
    params, pre, cexpr = str_params('c', L)
    q = ord(quote)
    pre += ['%s != %d and %s != 92 and %s != 10' % (n, q, n, n) for n, _t in params]
    if not params:
        params, pre = [('dummy', 'int')], ['dummy == 0']
    body = indent('''
c = %s
if ESCAPED:
    c = c + chr(92) + QUOTE + c      # an escaped quote of the literal's own kind inside the content
lit = QUOTE + c + QUOTE
query = PRE + lit + POST
fmt, lits = rbql_engine.separate_string_literals(query)
back = rbql_engine.combine_string_literals(fmt, lits)
pre_n = PRE.replace(chr(9), ' ')
post_n = POST.replace(chr(9), ' ')
return ((fmt, lits, back, LRE.failed), (pre_n + '___RBQL_STRING_LITERAL0___' + post_n, [lit], pre_n + lit + post_n, 0))
''' % cexpr)
    imports = 'QUOTE = %r\nPRE = %r\nPOST = %r\nESCAPED = %r\n' % (quote, pre_text, post_text, escaped)
    extra = 'from vf import relower\nLRE = relower.LoweringRe()\nrbql_engine.re = LRE\n'
    src = harness(imports, params, pre, body, extra_defs=extra)
    name = 'literal_lemma[%s,len=%d,%s%s]' % ('dq' if quote == '"' else 'sq', L, re.sub(r'[^a-z]+', '_', pre_text.lower())[:14], ',escaped' if escaped else '')
    return Obl(name, src, timeout=timeout, meta={'function': 'rbql_engine.separate_string_literals / combine_string_literals',
                                                  'bounds': 'every literal content of length %d without %s, backslash, LF%s; context %r ... %r' % (L, quote, ' (plus an escaped quote)' if escaped else '', pre_text, post_text)})


def _literal_pair_obl(quote, L, nbs, timeout):
    """Two literals of the same quote style; the first one ENDS in nbs (even) backslashes, i.e. in escaped backslashes: its closing quote is
    a closing quote.  With nbs odd the quote after them is escaped and the literal goes on to the next quote."""
    params, pre, cexpr = str_params('c', L)
    q = ord(quote)
    pre += ['%s != %d and %s != 92 and %s != 10' % (n, q, n, n) for n, _t in params]
    if not params:
        params, pre = [('dummy', 'int')], ['dummy == 0']
    body = indent('''
c = %s
if NBS %% 2 == 0:
    lit1 = QUOTE + c + chr(92) * NBS + QUOTE
    lit2 = QUOTE + 'x,*,y' + c + QUOTE
else:
    lit1 = QUOTE + c + chr(92) * NBS + QUOTE + ' as q,' + QUOTE     # ONE literal: the inner quote is escaped
    lit2 = QUOTE + c + ' where ' + QUOTE
query = 'select a1, ' + lit1 + ', ' + lit2 + chr(9) + 'where a2'
fmt, lits = rbql_engine.separate_string_literals(query)
back = rbql_engine.combine_string_literals(fmt, lits)
return ((fmt, lits, back, LRE.failed), ('select a1, ___RBQL_STRING_LITERAL0___, ___RBQL_STRING_LITERAL1___ where a2', [lit1, lit2], 'select a1, ' + lit1 + ', ' + lit2 + ' where a2', 0))
''' % cexpr)
    imports = 'QUOTE = %r\nNBS = %d\n' % (quote, nbs)
    extra = 'from vf import relower\nLRE = relower.LoweringRe()\nrbql_engine.re = LRE\n'
    src = harness(imports, params, pre, body, extra_defs=extra)
    return Obl('literal_pair[%s,len=%d,backslashes=%d]' % ('dq' if quote == '"' else 'sq', L, nbs), src, timeout=timeout,
               meta={'function': 'rbql_engine.separate_string_literals / combine_string_literals',
                     'bounds': 'two literals of one quote style, the first ending in %d backslashes; every other content of length %d without %s, backslash, LF' % (nbs, L, quote)})


# characters that some str method treats as white space or as a line boundary (str.splitlines, str.strip, str.split) -- inside a literal they are content
LITERAL_CLASS = (9, 11, 12, 28, 29, 30, 31, 32, 133, 160, 0x1680, 0x2000, 0x2028, 0x2029, 0x202f, 0x205f, 0x3000, 35, 59, 97)


def _literal_class_obl(quote, shape, timeout):
    """End to end with literal content over the CLASS alphabet above (solver-enumerated, concrete per path: the query text is then a plain
    string and the whole parser, code generator and the generated code run on real values)."""
    body = indent('''
c = chr(qh.concretize(n0, CLASS))
content = 'p' + c + 'q'
lit = QUOTE + content + QUOTE
x0 = content if s0 else 'pq'
x1 = content if s1 else c
if SHAPE == 'select':
    query = 'select ' + lit + ', a1'
    exp = [[content, x] for x in (x0, x1)]
elif SHAPE == 'multiline':
    query = 'select a1,' + chr(10) + '  ' + lit + chr(10) + 'where a1 != ' + lit + ' ;'
    exp = [[x, content] for x in (x0, x1) if x != content]
elif SHAPE == 'where':
    query = 'select NR where a1 == ' + lit
    exp = [[i + 1] for i, x in enumerate((x0, x1)) if x == content]
else:
    query = 'update set a1 = ' + lit + ' where NR == 2'
    exp = [[x0], [content]]
T = [[x0], [x1]]
out = []
try:
    rbql_engine.query_table(query, T, out, [])
    got = ('ok', out)
except Exception as e:
    got = ('err', type(e).__name__, str(e))
return (got, ('ok', exp))
''')
    params = [('n0', 'int'), ('s0', 'bool'), ('s1', 'bool')]
    pre = ['n0 in %r' % (LITERAL_CLASS,)]
    src = harness('from vf import qh\nQUOTE = %r\nSHAPE = %r\nCLASS = %r\n' % (quote, shape, LITERAL_CLASS), params, pre, body)
    return Obl('literal_class[%s,%s]' % ('dq' if quote == '"' else 'sq', shape), src, timeout=timeout,
               meta={'function': 'rbql_engine.query_table', 'bounds': 'literal content p<c>q with c over the %d-member class alphabet %r; 2x1 table whose cells are the content or not (symbolic bools)' % (len(LITERAL_CLASS), LITERAL_CLASS)})


HOSTILE_LITERALS = ['select', ' where ', 'a1', '*', 'order by a1', '#', ';', 'x, y', ' join b on a1 == b1', '= ', ' limit 1', ' from a', 'update set', 'distinct count', 'top 1 ', '(', ')]', 'a.*',
                    'b1 == a1', ' with (header)', 'group by', ' as x', 'except a1', 'NR', '\t', '==', "it's", 'say "hi"']


def _literal_e2e_obl(content, quote, timeout):
    if quote in content:
        return None
    lit = quote + content + quote
    other = "'" if quote == '"' else '"'
    lit2 = other + 'q' + content.replace(other, '') + other
    val2 = 'q' + content.replace(other, '')
    q = Q(items=[Item(lit, lambda e: content), fa(1)], where=('a2 != ' + lit2, lambda e: e.a(2) != val2))
    name = 'lit[%s|%s]' % (content.encode('unicode_escape').decode(), 'dq' if quote == '"' else 'sq')
    CASES[name] = q
    return qh.query_obl('C08', name, q, ['Cs', 'cs'], slen=1, timeout=timeout)


for _c in HOSTILE_LITERALS:
    for _qt in ('"', "'"):
        _literal_e2e_obl(_c, _qt, 60)   # registers CASES at import time (harness modules import CASES by name)


def obligations(tier, seed):
    obs = []
    quick = tier == 'quick'
    nvar = 8 if quick else 24
    for bi, (bname, (q, a, b)) in enumerate(BASES.items()):
        rnd = random.Random(1000 * seed + bi)
        seen = set()
        k = 0
        while len(seen) < nvar and k < nvar * 5:
            k += 1
            text, desc = respell(q, rnd)
            if text in seen:
                continue
            seen.add(text)
            o = qh.query_obl('C08', bname, q, a, b, krange=2, timeout=150 if quick else 600, text=text, tag='~%d' % len(seen))
            o.meta['spelling'] = desc
            obs.append(o)
    ctx = [('select ', ', a1 where a2 == 5'), ('select a1 where a2 != ', ' order by a1'), ('update a1 = ', ''), ('select\ta1,\t', '\t, a2')]
    for qi, quote in enumerate(('"', "'")):
        for L in ((0, 1, 2, 3) if quick else (0, 1, 2, 3, 4)):
            pre_t, post_t = ctx[(qi + L) % len(ctx)]
            obs.append(_literal_lemma_obl(quote, L, pre_t, post_t, False, 200 if quick else 1200))
        for L in ((1,) if quick else (0, 1, 2)):
            obs.append(_literal_lemma_obl(quote, L, 'select a1, ', ' where a1', True, 200 if quick else 1200))
    for quote in ('"', "'"):
        for nbs in ((2, 3) if quick else (1, 2, 3, 4)):
            for L in ((0, 1) if quick else (0, 1, 2)):
                obs.append(_literal_pair_obl(quote, L, nbs, 200 if quick else 1200))
        for shape in ('select', 'multiline', 'where', 'update'):
            obs.append(_literal_class_obl(quote, shape, 300 if quick else 1200))
    for i, c in enumerate(HOSTILE_LITERALS):
        for qi, quote in enumerate(('"', "'")):
            if quick and (i + qi + seed) % 2:
                continue
            o = _literal_e2e_obl_existing(c, quote, 150 if quick else 600)
            if o is not None:
                obs.append(o)
    return obs


def _literal_e2e_obl_existing(content, quote, timeout):
    if quote in content:
        return None
    name = 'lit[%s|%s]' % (content.encode('unicode_escape').decode(), 'dq' if quote == '"' else 'sq')
    return qh.query_obl('C08', name, CASES[name], ['Cs', 'cs'], slen=1, timeout=timeout)
