"""C02 -- ORDER BY, DISTINCT and TOP/LIMIT compose as sort, then dedup, then truncate; bounded streaming queries stop pulling input.

Decided by CrossHair over the real rbql_engine.query_table / rbql_engine.query (counting and unbounded iterators): concrete
query family {ORDER BY asc/desc, 1-2 keys} x {none, DISTINCT, DISTINCT COUNT} x {none, TOP n, LIMIT n} x {WHERE, JOIN, UNNEST},
symbolic int cells (sort/dedup keys are only compared and hashed), one small str shard; oracle = reference interpreter.
"""
from vf import qh
from vf.qlib import *  # noqa

INFO = {
    'explanation': 'Each obligation: for EVERY table of the stated shape (int cells unbounded, or short strings) the real engine returns exactly '
                   'stable-sort -> reverse if DESC -> first-occurrence dedup / multiplicity prefix -> first n.  Consumption obligations drive '
                   'rbql_engine.query with a counting iterator (get_record() calls must equal the reference count: the record during which the bound '
                   'refuses a write, else all+1) and with an unbounded cyclic iterator (must terminate).',
    'bounds': 'tables <= 4 rows (quick <= 3) x 2 int columns; n in 0..rows+1; join table <= 2 rows; one str shard (<= 3 rows, 1 char)',
    'outside': 'symbolic query text; more rows; float/mixed keys; JS twin incl. stable_compare (C19 n/a)',
    'assumptions': ['CrossHair models of sorted()/tuple comparison/int faithful to CPython', 'set()/dict()/OrderedDict replaced by equality containers under symbolic execution only'],
    'trusted': ['crosshair-tool 0.0.110', 'z3', 'CPython 3.12.1'],
}

K1 = ('a1', lambda e: e.a(1))
K2 = ('a2', lambda e: e.a(2))
KNEG = ('-a2', lambda e: -e.a(2))
ORDERS = {
    'none': dict(order=None),
    'a1': dict(order=[K1]),
    'a1desc': dict(order=[K1], desc=True, order_suffix='DESC'),
    'a1asc': dict(order=[K1], order_suffix='ASC'),
    'a1a2': dict(order=[K1, K2]),
    'a1a2desc': dict(order=[K1, K2], desc=True, order_suffix='desc'),
    'a2nega1': dict(order=[KNEG, K1]),
}
W_POS = ('a2 >= 0', lambda e: e.a(2) >= 0)
CASES = {}
META = {}


def _mk(name, items, okey, distinct, top, top_kw, extra=None, where=None, jn=None):
    kw = dict(ORDERS[okey])
    q = Q(items=items, distinct=distinct, top=top, top_kw=top_kw, where=where, join=jn, **kw)
    assert name not in CASES, name
    CASES[name] = q
    META[name] = dict(order=okey, distinct=distinct, top=top, join=jn is not None, streaming=(okey == 'none' and distinct != 'count'))
    return name


def _build(maxrows):
    names = []
    n = 0
    for okey in ORDERS:
        for distinct in (None, 'distinct', 'count'):
            tops = [(None, 'TOP')] + [(t, 'TOP' if (t + n) % 2 == 0 else 'LIMIT') for t in range(0, maxrows + 2)]
            for top, kw in tops:
                items = [fa(1), NR] if distinct is None else ([fa(1)] if n % 2 == 0 else [fa(1), fa(2)])
                nm = 'q[o=%s|d=%s|%s=%s]' % (okey, distinct, kw.lower(), top)
                names.append(_mk(nm, items, okey, distinct, top, kw))
                n += 1
    # with WHERE / UNNEST / JOIN
    for okey in ('none', 'a1', 'a1desc', 'a1a2'):
        for distinct in (None, 'distinct', 'count'):
            for top in (None, 1, 2):
                kw = 'LIMIT' if n % 2 else 'TOP'
                n += 1
                names.append(_mk('qw[o=%s|d=%s|%s=%s]' % (okey, distinct, kw.lower(), top), [fa(1), fa(2)] if distinct else [fa(1), NR], okey, distinct, top, kw, where=W_POS))
                names.append(_mk('qu[o=%s|d=%s|%s=%s]' % (okey, distinct, kw.lower(), top), [fa(1), Item('unnest([a2, a2, a1])', lambda e: [e.a(2), e.a(2), e.a(1)], kind='unnest')],
                                 okey, distinct, top, kw))
                names.append(_mk('qj[o=%s|d=%s|%s=%s]' % (okey, distinct, kw.lower(), top), [fa(2), fb(2)] if distinct else [fa(2), fb(2), NR], okey if okey != 'a1a2' else 'a2nega1',
                                 distinct, top, kw, jn=join('JOIN')))
    return names


ALL = _build(4)

# str shard: sort/dedup of strings
for _o in ('a1', 'a1desc'):
    for _d in (None, 'distinct', 'count'):
        _mk('qs[o=%s|d=%s]' % (_o, _d), [fa(1)] if _d else [fa(1), NR], _o, _d, None, 'TOP')


def selfcheck():
    from vf.refmodel import relcheck
    return relcheck.check()


def _shape(rows):
    return ['ii'] * rows


def obligations(tier, seed):
    obs = []
    quick = tier == 'quick'
    rows_main = 3
    picked = []
    for i, name in enumerate(ALL):
        m = META[name]
        if quick:
            # every (order, distinct) combination once, top rotating; plus all where/unnest/join members with top == 1
            if name.startswith('q['):
                t = m['top']
                if t is not None and t > 4:
                    continue
                if (hash((m['order'], m['distinct'])) + (t if t is not None else 5) + seed) % 7 != 0:
                    if not (t == 2 and m['order'] in ('a1desc', 'a1a2') and m['distinct'] != 'count'):
                        continue
            else:
                if m['top'] != 1 and not (m['top'] is None and m['order'] == 'a1desc'):
                    continue
        picked.append(name)
    import zlib
    if quick:
        # deterministic pick independent of PYTHONHASHSEED
        picked = []
        for name in ALL:
            m = META[name]
            h = zlib.crc32(('%s|%s' % (m['order'], m['distinct'])).encode()) + seed
            t = m['top']
            if name.startswith('q['):
                if t is not None and t > 4:
                    continue
                if (h + (t if t is not None else 5)) % 6 == 0 or (t == 2 and m['order'] in ('a1desc', 'a1a2') and m['distinct'] != 'count'):
                    picked.append(name)
            elif t == 1 or (t is None and m['order'] == 'a1desc'):
                picked.append(name)
    for name in picked:
        q = CASES[name]
        m = META[name]
        if q.join is not None:
            obs.append(qh.query_obl('C02', name, q, ['ki', 'ki'] if quick else ['ki', 'ki', 'ki'], ['ki', 'ki'], krange=2, timeout=150 if quick else 900))
        else:
            rows = rows_main if quick else (4 if (m['distinct'] is None or m['order'] in ('none', 'a1')) else 3)
            if name.startswith('qu['):
                rows = 2 if quick else 3
            obs.append(qh.query_obl('C02', name, q, _shape(rows), timeout=150 if quick else 900))
            if not quick and q.top is not None and q.top <= 3:
                obs.append(qh.query_obl('C02', name, q, _shape(2), timeout=300))
    # str shard
    for name in [n for n in CASES if n.startswith('qs[')]:
        if quick and 'd=count' in name:
            continue
        obs.append(qh.query_obl('C02', name, CASES[name], ['s', 's', 's'] if not quick else ['s', 's'], slen=1, timeout=200 if quick else 900, tag='str'))
    # consumption clause: streaming bounded queries stop pulling input
    cons = [n for n in ALL if META[n]['streaming'] and CASES[n].top is not None and CASES[n].join is None]
    for i, name in enumerate(cons):
        q = CASES[name]
        if quick and not (q.top in (0, 1, 2) and (i + seed) % 3 == 0):
            continue
        obs.append(qh.query_obl('C02', name, q, _shape(3 if quick else 4), timeout=150 if quick else 600, counting=True, tag='#calls'))
    # unbounded input: must terminate
    unb = [n for n in ALL if META[n]['streaming'] and CASES[n].top is not None and CASES[n].join is None and CASES[n].distinct is None and CASES[n].where is None]
    for i, name in enumerate(unb):
        q = CASES[name]
        if quick and (i + seed) % 4 != 0:
            continue
        obs.append(qh.query_obl('C02', name, q, _shape(2), timeout=150 if quick else 600, counting=True, cycle=(q.top + 2), tag='#unbounded'))
    return obs
