"""C17 -- like(text, pattern) implements SQL LIKE exactly.

Lemma 1 (structure, symbolic pattern): like_to_regex(p) == '^' + concat(tr(c) for c in p) + '$' for EVERY pattern p of the
stated length, with re.escape replaced by a homomorphic marker escaper (the real one branches ~30 ways per character).
Lemma 2 (matching, symbolic text): for concrete patterns covering every wildcard/literal shape, the real LIKE closure
(real re.escape, real re.compile, called through `select like(a1, '<p>')`) equals the textbook matcher for EVERY single-line
text of the stated length.
"""
import itertools

from vf.engine import Obl
from vf.gen import harness, indent

INFO = {
    'explanation': 'Lemma 1: for every Unicode pattern p (fixed length per shard) rbql_engine.like_to_regex(p) has the anchored, per-character '
                   'translated structure. Lemma 2: for every single-line Unicode text (fixed length per shard) and each concrete pattern of the '
                   'shape family, query_table("select like(a1, <pattern>)") equals the textbook LIKE matcher (two-row tables exercise the regex cache).',
    'bounds': 'patterns: symbolic up to length 5 (lemma 1); concrete shapes of length <= 4 over {%, _, literal} with literals from a b . * \\ [ ( ^ $ + ? | (lemma 2); '
              'texts: symbolic, no newline, length <= 4 (quick) / <= 5 (thorough)'
        '; class-alphabet texts (9 code points that NFC / NFKC / case folding would change) of length <= 2 (quick) / 3 (thorough) against 15 patterns, both argument roles',
    'outside': 'texts containing a line break (excluded by the property); longer texts/patterns; re.escape(c) for characters outside the enumerated hostile alphabet is trusted to denote c; JS twin',
    'assumptions': ['CrossHair regex model faithful to CPython re for the constructs used (counterexamples replayed on real re)',
                    're.escape is a per-character homomorphism (stdlib)'],
    'trusted': ['crosshair-tool 0.0.110', 'z3', 'CPython 3.12.1 re'],
}

HOSTILE = ['a', 'b', '.', '*', '\\', '[', '(', '^', '$', '+', '?', '|']

REF_SRC = '''
def like_ref(text, pat):
    """Textbook LIKE: dynamic programme over (pattern position, text position)."""
    n = len(text)
    cur = [True] + [False] * n          # pattern prefix of length 0 matches only the empty text prefix
    for pc in pat:
        nxt = [False] * (n + 1)
        if pc == '%':
            seen = False
            for j in range(n + 1):
                seen = seen or cur[j]
                nxt[j] = seen
        else:
            for j in range(1, n + 1):
                if cur[j - 1] and (pc == '_' or text[j - 1] == pc):
                    nxt[j] = True
        cur = nxt
    return cur[n]
'''


def _structure_obl(L, timeout):
    extra = '''
class _FakeRe(object):
    """re with a homomorphic marker escape; everything else is the real module."""
    def __init__(self, real):
        self._real = real
    def escape(self, s):
        return ''.join(['!' + c for c in s])
    def __getattr__(self, name):
        return getattr(self._real, name)
import re as _real_re
rbql_engine.re = _FakeRe(_real_re)
'''
    body = indent('''
got = rbql_engine.like_to_regex(p)
parts = ['^']
for c in p:
    if c == '%':
        parts.append('.*')
    elif c == '_':
        parts.append('.')
    else:
        parts.append('!' + c)
parts.append('$')
return (got, ''.join(parts))
''')
    src = harness('', [('p', 'str')], ['len(p) == %d' % L], body, extra_defs=extra)
    return Obl('like_to_regex_structure[len=%d]' % L, src, timeout=timeout,
               meta={'function': 'rbql_engine.like_to_regex', 'bounds': 'every Unicode pattern p with len(p) == %d; re.escape := homomorphic marker' % L})


def _lit(p):
    return '"' + p.replace('\\', '\\\\') + '"'


def _match_obl(pat, L, rows, timeout):
    params = [('t%d' % i, 'str') for i in range(rows)]
    pre = ['len(t%d) == %d' % (i, L) for i in range(rows)] + ['chr(10) not in t%d' % i for i in range(rows)]
    body = indent('''
out = []
rbql_engine.query_table(QUERY, [%s], out, [])
return (out, [%s])
''' % (', '.join('[t%d]' % i for i in range(rows)), ', '.join('[like_ref(t%d, PAT)]' % i for i in range(rows))))
    q = 'select like(a1, %s)' % _lit(pat)
    src = harness('PAT = %r\nQUERY = %r\n' % (pat, q), params, pre, body, extra_defs=REF_SRC)
    return Obl('like_match[%s,len=%d,rows=%d]' % (pat.encode('unicode_escape').decode(), L, rows), src, timeout=timeout,
               meta={'query': q, 'pattern': pat, 'bounds': 'every single-line Unicode text of length %d in each of %d rows' % (L, rows)})


def _where_obl(pat, L, timeout):
    # LIKE in WHERE position with the upper-case spelling
    body = indent('''
out = []
rbql_engine.query_table(QUERY, [[t0], [t1]], out, [])
return (out, [[t] for t in (t0, t1) if like_ref(t, PAT)])
''')
    q = 'select a1 where LIKE(a1, %s)' % _lit(pat)
    src = harness('PAT = %r\nQUERY = %r\n' % (pat, q), [('t0', 'str'), ('t1', 'str')], ['len(t0) == %d' % L, 'len(t1) <= 1', 'chr(10) not in t0', 'chr(10) not in t1'], body, extra_defs=REF_SRC)
    return Obl('like_where[%s,len=%d]' % (pat.encode('unicode_escape').decode(), L), src, timeout=timeout, meta={'query': q, 'pattern': pat, 'bounds': 'text0 length %d, text1 length <= 1' % L})


def _computed_pattern_obl(L, timeout):
    """The pattern is computed per record (a2 + '%'): the matcher cache must be keyed by the pattern VALUE."""
    from vf.gen import str_params
    p0, pre0, e0 = str_params('t0', L)
    params = p0 + [('s0', 'bool'), ('s1', 'bool'), ('s2', 'bool')]
    pre = pre0 + ['%s != 10' % n for n, _t in p0]
    body = indent('''
pats = ['ab' if s0 else 'b', 'b' if s1 else 'a_', 'a_' if s2 else 'ab']
rows = [[%s, pats[0]], ['ab', pats[1]], ['b', pats[2]], ['aXb', pats[0]], ['ab', pats[2]], ['bb', pats[1]], ['a', pats[0]], ['axe', pats[2]]]
out = []
rbql_engine.query_table(QUERY, rows, out, [])
return (out, [[like_ref(r[0], r[1] + '%%')] for r in rows])
''' % e0)
    q = "select like(a1, a2 + '%')"
    src = harness('QUERY = %r\n' % q, params, pre, body, extra_defs=REF_SRC)
    return Obl('like_computed_pattern[len=%d]' % L, src, timeout=timeout, meta={'query': q, 'bounds': '8 rows, first text of length %d symbolic, patterns chosen per row from {ab%%, b%%, a_%%} by symbolic bools' % L})


# code points that some Unicode transformation (NFC / NFKC normalisation, case folding) maps to something else: LIKE compares code points
UNI_CLASS = (0x65, 0x301, 0xe9, 0xc5, 0x212b, 0x212a, 0x6b, 0xdf, 0x61)


def _class_match_obl(pat, L, timeout):
    """Texts over the class alphabet above, solver-enumerated and concrete per path (unicodedata / str.casefold are C functions the engine
    cannot model: a symbolic text would be realised to one arbitrary value)."""
    params = [('n%d' % i, 'int') for i in range(L)] or [('dummy', 'int')]
    pre = ['n%d in %r' % (i, UNI_CLASS) for i in range(L)] or ['dummy == 0']
    body = indent('''
from vf import qh
t = ''.join([chr(qh.concretize(n, CLASS)) for n in [%s]])
out = []
rbql_engine.query_table('select like(a1, a2), like(a2, a1)', [[t, PAT]], out, [])
return (out, [[like_ref(t, PAT), like_ref(PAT, t)]])
''' % ', '.join('n%d' % i for i in range(L)))
    src = harness('PAT = %r\nCLASS = %r\n' % (pat, UNI_CLASS), params, pre, body, extra_defs=REF_SRC)
    return Obl('like_class[%s,len=%d]' % (pat.encode('unicode_escape').decode(), L), src, timeout=timeout,
               meta={'query': 'select like(a1, a2), like(a2, a1)', 'pattern': pat, 'bounds': 'every text of length %d over the class alphabet %r; text and pattern both come from cells, each used in both roles' % (L, UNI_CLASS)})


CLASS_PATTERNS = ['_', '__', 'e_', '_\u0301', '\xe9', 'e\u0301', '\xc5', '\u212b', '%_', 'e%', 'K', '\u212a', 'ss', '\xdf_', '%\u0301']


def patterns(maxlen, seed=0):
    """Every shape of length 1..maxlen over {%, _, literal}; literals rotate through the hostile alphabet."""
    res = ['']
    k = seed
    for n in range(1, maxlen + 1):
        for shape in itertools.product('%_L', repeat=n):
            p = ''
            for s in shape:
                if s == 'L':
                    p += HOSTILE[k % len(HOSTILE)]
                    k += 1
                else:
                    p += s
            res.append(p)
    return res


def obligations(tier, seed):
    obs = []
    if tier == 'quick':
        for L in range(0, 5):
            obs.append(_structure_obl(L, 90))
        pats = patterns(3, seed)
        for i, p in enumerate(pats):
            obs.append(_match_obl(p, 3 if len(p) == 3 else 4, 1, 90))
        for p in ['a%', '%.', '_b', 'a.b', '%a%', '\\', '(_']:
            obs.append(_match_obl(p, 2, 2, 90))
        obs.append(_computed_pattern_obl(2, 90))
        for p in ('a%a', 'ab%ba', '.%.', 'a%a%a', '%a%a'):
            for L in (1, 2, 3):
                obs.append(_match_obl(p, L, 1, 90))
        for p in ('', '%', '%%', '_', 'a', '%_', 'a%'):
            for L in (0, 1):
                obs.append(_match_obl(p, L, 1, 60))
        obs.append(_match_obl('%', 0, 2, 60))
        obs.append(_where_obl('%b', 3, 90))
        obs.append(_where_obl('[_', 3, 90))
        for p in CLASS_PATTERNS:
            obs.append(_class_match_obl(p, 2, 150))
        for p in CLASS_PATTERNS[:3]:
            obs.append(_class_match_obl(p, 1, 150))
    else:
        for L in range(0, 6):
            obs.append(_structure_obl(L, 600))
        pats = patterns(4, seed)
        for i, p in enumerate(pats):
            for L in ((2, 5) if len(p) <= 2 else (4, 5)):
                obs.append(_match_obl(p, L, 1, 600))
        for h in HOSTILE:
            obs.append(_match_obl(h, 3, 1, 300))
            obs.append(_match_obl('%' + h + '_', 4, 1, 300))
        for p in patterns(2, seed + 3):
            obs.append(_match_obl(p, 3, 2, 600))
        for L in (1, 2, 3):
            obs.append(_computed_pattern_obl(L, 600))
        for p in ('a%a', 'ab%ba', '.%.', 'a%a%a', '%a%a', 'aa%a', 'a_%_a'):
            for L in (0, 1, 2, 3, 4):
                obs.append(_match_obl(p, L, 1, 600))
        for p in patterns(2, seed + 5):
            for L in (0, 1):
                obs.append(_match_obl(p, L, 1, 300))
        for p in ['%b', '[_', 'a%b', '.*', '^a$', 'a|b']:
            obs.append(_where_obl(p, 4, 600))
        for p in CLASS_PATTERNS:
            for L in (1, 2, 3):
                obs.append(_class_match_obl(p, L, 900))
    # names must be unique
    seen = set()
    uniq = []
    for o in obs:
        if o.name not in seen:
            seen.add(o.name)
            uniq.append(o)
    return uniq
