"""C07 -- Output header always matches output records and follows the naming rules.

Decided by CrossHair over the real rbql_engine.query_table(..., input_column_names=H, join_column_names=HB, output_column_names=out)
(column_info_from_node, ast_parse_select_expression_to_column_infos, select_output_header, translate_except_expression,
shallow_parse_input_query): header NAMES are symbolic (distinct Unicode strings), cells symbolic, select list concrete; plus one
shard through the width-enforcing CSVWriter.  Oracle = documented naming rule (vf/refmodel/rel.output_header).
"""
from vf import qh
from vf.engine import Obl
from vf.gen import harness, indent
from vf.qlib import *  # noqa

INFO = {
    'explanation': 'Each obligation: for EVERY header of distinct names (symbolic, any Unicode, except the concrete names the query itself mentions) and every table of the '
                   'stated shape, the output header has exactly as many names as every output record has fields and each name follows the rule: alias for AS; source column '
                   'name for aN, a[N], a.name, a["name"] and star expansions; the identifier for bare variables (NR); colK (K = output position) otherwise; no header in and '
                   'no alias => no header out.  The DISTINCT COUNT multiplicity column is only counted (its name is not documented).',
    'bounds': 'headers of 2-3 names, symbolic names len <= 2; tables 2 rows, cells str len <= 1; select lists of 1-5 items incl. nested brackets / commas inside calls and literals'
        '; bare identifiers that only start like aN / bN (directly mapped column names, user-init variables): 6 concrete queries over symbolic 1-character cells',
    'outside': 'symbolic select-list text; pandas DataframeWriter (C extension); JS twin (text-span based) -- see C18 for the header kernel',
    'assumptions': ['CrossHair models of str/list/re faithful to CPython'],
    'trusted': ['crosshair-tool 0.0.110', 'z3', 'CPython 3.12.1 ast module (concrete input)'],
}

CASES = {}
SPEC = {}


HOSTILE_POOL = [['id', 'x y', 'z'], ['a"b', "c'd", 'e\\f'], ['[x]', 'ä', 'a1'], ['NR', 'select', 'tab\tq']]
_pool_idx = [0]


def _add(name, q, ha, hb=None, a=None, b=None, quick=False, **kw):
    assert name not in CASES, name
    from vf.refmodel import rel as _rel
    text = _rel.render(q)
    if ha is not None and ('a[' in text or 'b[' in text):
        # parse_dictionary_variables embeds every header name into generated code (compile() needs concrete text) and scans it with a
        # large character-class regex: header names of `a[...]` queries are concrete, drawn from a hostile pool; cells stay symbolic.
        pool = HOSTILE_POOL[_pool_idx[0] % len(HOSTILE_POOL)]
        _pool_idx[0] += 1
        ha = [(pool[i % len(pool)] if nm is None else nm) for i, nm in enumerate(ha)]
        if hb is not None:
            hb = [(('j' + pool[i % len(pool)]) if nm is None else nm) for i, nm in enumerate(hb)]
    CASES[name] = q
    SPEC[name] = dict(ha=ha, hb=hb, a=a or ['sss', 'sss'], b=b, quick=quick, kw=kw)


H3 = [None, None, None]
HN = {0: ['name', None, None], 1: [None, 'name', None], 2: [None, None, 'name']}
EXPR = Item('a1 + "x"', lambda e: e.a(1) + 'x')
NESTED = Item('max(len(a1), 2)', lambda e: max(len(e.a(1)), 2))
LITC = Item('"a,b"', lambda e: 'a,b')
TUP = Item('(a1, a2)[0]', lambda e: e.a(1))
CALLC = Item('"{},{}".format(a1, a2)', lambda e: '{},{}'.format(e.a(1), e.a(2)))
CNT = Item('COUNT(*)', lambda e: 1, kind='agg', agg='COUNT')


def _build():
    lists = {
        'a2,a1,NR,expr-as,5': [fa(2), fa(1), NR, alias(EXPR, 'foo'), Item('5', lambda e: 5)],
        'arr2,arr1-AS,len': [arr(2), alias(arr(1), 'first', 'AS'), LEN1],
        'star,NR': [STAR, NR],
        'astar,7-as': [ASTAR, alias(LIT7, 'seven')],
        'a3,a4': [fa(3), fa(4)],
        'NF,a1': [NF, fa(1)],
        'nested,litc,tup': [NESTED, LITC, TUP],
        'callc-as,a[3]': [alias(CALLC, 'both'), arr(3)],
        'expr,star,expr': [EXPR, STAR, LEN1],
        'a1-as-a2name': [alias(fa(1), 'a2'), fa(2)],
        'lit,a2,star,a2': [LITS, fa(2), ASTAR, fa(2)],
    }
    mods = {'': {}, 'distinct': dict(distinct='distinct'), 'count': dict(distinct='count'), 'top1': dict(top=1), 'limit1': dict(top=1, top_kw='LIMIT'),
            'order': dict(order=[('a1', lambda e: e.a(1))])}
    n = 0
    mk = list(mods)
    for lk, items in lists.items():
        for j in range(2):
            m = mk[(n + 3 * j) % len(mk)] if j else ''
            n += 1
            nm = 'hdr[%s|%s]' % (lk, m)
            if nm in CASES:
                continue
            _add(nm, Q(items=items, **mods[m]), H3, a=(['sss'] if m == 'count' else None), quick=(j == 0 and lk in ('a2,a1,NR,expr-as,5', 'arr2,arr1-AS,len', 'star,NR', 'a3,a4', 'nested,litc,tup', 'lit,a2,star,a2')) or m == 'count')
    _add('hdr[a1,a2|count]', Q(items=[fa(1), fa(2)], distinct='count'), H3, quick=True)
    # aliases on expressions whose top-level operator binds weaker than a comparison
    LOWP = [Item('a1 or a2', lambda e: e.a(1) or e.a(2)), Item('a1 and a2', lambda e: e.a(1) and e.a(2)), Item('not a2', lambda e: not e.a(2)),
            Item('a1 if a2 else "n/a"', lambda e: e.a(1) if e.a(2) else 'n/a'), Item('a1 == a2', lambda e: e.a(1) == e.a(2)), Item('lambda_free(a1)' if False else 'a1 in (a2, a3)', lambda e: e.a(1) in (e.a(2), e.a(3)))]
    _add('hdr[lowprec-aliases]', Q(items=[alias(LOWP[0], 'x'), alias(LOWP[1], 'y', 'AS'), fa(1)]), H3, quick=True)
    _add('hdr[lowprec-aliases2]', Q(items=[alias(LOWP[2], 'n'), alias(LOWP[3], 't', 'AS'), alias(LOWP[4], 'eq'), alias(LOWP[5], 'isin')]), H3, a=['sss'], quick=True)
    _add('nohdr[lowprec-alias]', Q(items=[fa(1), alias(LOWP[0], 'x')]), None, quick=True)
    _add('hdr[star|count]', Q(items=[STAR], distinct='count'), H3)
    _add('hdr[a1-as|count]', Q(items=[alias(fa(1), 'k')], distinct='count'), H3)
    # EXCEPT / aggregates / UPDATE
    _add('hdr[except a2]', Q(excpt=[1], excpt_text='a2'), H3, quick=True)
    _add('hdr[except a2,a[2]]', Q(excpt=[1, 1], excpt_text='a2, a[2]'), H3, quick=True)
    _add('hdr[except a1,a.name,a3|p=0]', Q(excpt=[0, 0, 2], excpt_text='a1, a.name, a3'), HN[0], quick=True)
    _add('hdr[except a1,a3|top1]', Q(excpt=[0, 2], excpt_text='a1, a3', top=1), H3)
    _add('hdr[except a3,a[1]]', Q(excpt=[0, 2], excpt_text='a3, a[1]', where=W_NEX), H3)
    _add('hdr[a1,count-as,max|group]', Q(items=[fa(1), alias(CNT, 'cnt'), agg('MAX', 'a2', lambda e: e.a(2))], group=[('a1', lambda e: e.a(1))]), H3, a=['iis', 'iis'], quick=True)
    _add('hdr[sum,a1,lit-as|group]', Q(items=[agg('ARRAY_AGG', 'a2', lambda e: e.a(2)), fa(1), alias(LITS, 'letters')], group=[('a1', lambda e: e.a(1))]), H3, a=['iis', 'iis'])
    _add('hdr[update]', Q(update=[('a2', 1, 'a1', lambda e: e.a(1))]), H3, quick=True)
    _add('hdr[update|where]', Q(update=[('a1', 0, "'z'", lambda e: 'z'), ('a[3]', 2, 'a2', lambda e: e.a(2))], where=W_ODD, update_set=False), H3)
    # named references at every header position
    for p in (0, 1, 2):
        _add('hdr[a.name,a["name"],sub-as|p=%d]' % p, Q(items=[attr('name'), sub('name'), alias(sub('name', "'"), 'n2'), NR]), HN[p], quick=(p == 1))
        _add('hdr[a%d,a.name,star|p=%d]' % (p + 1, p), Q(items=[fa(p + 1), attr('name'), STAR]), HN[p], quick=(p == 2))
    _add('hdr[a["name"]|distinct]', Q(items=[sub('name'), fa(1)], distinct='distinct'), HN[0])
    # joins
    HB2 = [None, None]
    jj = join('JOIN')
    _add('hdrj[a1,b2]', Q(items=[fa(1), fb(2)], join=jj), [None, None], HB2, ['ks', 'ks'], ['ks', 'ks'], quick=True, krange=2)
    _add('hdrj[star]', Q(items=[STAR], join=join('LEFT JOIN')), [None, None], HB2, ['ks', 'ks'], ['ks', 'ks'], quick=True, krange=2)
    _add('hdrj[bstar,astar,b3]', Q(items=[BSTAR, ASTAR, fb(3)], join=jj), [None, None], HB2, ['ks', 'ks'], ['ks', 'ks'], krange=2)
    _add('hdrj[b[1],expr,b.name]', Q(items=[arrb(1), EXPR, attr('name', 'b')], join=jj), [None, None], [None, 'name'], ['ks', 'ks'], ['ks', 'ks'], quick=True, krange=2)
    _add('hdrj[bNR,b2-as,star|count]', Q(items=[BNR, alias(fb(2), 'bb'), STAR], join=jj, distinct='count'), [None, None], HB2, ['ks', 'ks'], ['ks', 'ks'], krange=2)
    _add('hdrj[update]', Q(update=[('a2', 1, 'b2', lambda e: e.b(2))], join=jj), [None, None], HB2, ['ks', 'ks'], ['ks', 'ks'], quick=True, krange=2)
    _add('hdrj[update-left]', Q(update=[('a1', 0, 'b1', lambda e: e.b(1))], join=join('LEFT JOIN'), where=('b2 is None', lambda e: e.b(2) is None)), [None, None], [None, None, None], ['ks', 'ks'], ['kss'], quick=True, krange=2)
    # no input header: an output header exists only when aliases are used
    _add('nohdr[a1,a2]', Q(items=[fa(1), fa(2)]), None, quick=True)
    _add('nohdr[star]', Q(items=[STAR, NR]), None)
    _add('nohdr[alias]', Q(items=[alias(NR, 'my_NR'), alias(fa(1), 'v', 'AS'), LEN1, fa(3)]), None, quick=True)
    _add('nohdr[alias|count]', Q(items=[alias(fa(1), 'v')], distinct='count'), None, quick=True)
    _add('nohdr[alias,a2|count]', Q(items=[fa(2), alias(fa(1), 'v', 'AS')], distinct='count'), None)
    _add('nohdr[star+alias]', Q(items=[STAR, alias(LEN1, 'l')]), None, quick=True)
    _add('nohdr[alias+star]', Q(items=[alias(fa(1), 'x'), STAR]), None, quick=True)
    _add('nohdr[alias+astar+expr]', Q(items=[alias(LEN1, 'l', 'AS'), fa(2), ASTAR]), None, quick=True)
    _add('nohdrj[alias+bstar]', Q(items=[alias(fa(1), 'x'), BSTAR], join=jj), None, None, ['ks', 'ks'], ['ks', 'ks'], quick=True, krange=2)
    _add('nohdr[update]', Q(update=[('a1', 0, 'a2', lambda e: e.a(2))]), None)
    _add('nohdr[except]', Q(excpt=[0], excpt_text='a1'), None)
    _add('nohdrj[alias]', Q(items=[alias(fb(2), 'bb'), fa(1)], join=jj), None, None, ['ks', 'ks'], ['ks', 'ks'], krange=2)


_build()


def selfcheck():
    from vf.refmodel import relcheck
    return relcheck.check()


def _csv_width_obl(name, timeout):
    """The same query through the width-enforcing CSVWriter: header line + records must be written without the width error."""
    s = SPEC[name]
    q = CASES[name]
    hp, hpre, haexpr = qh.header_params('ha', [(['p', 'q', 'r'][i] if nm is None else nm) for i, nm in enumerate(s['ha'])], 2)
    pa, pb, po, texpr = qh.table_params('a', s['a'][:1], 1)
    body = indent('''
T = %s
H = %s
q = qh.with_headers(Q, H, None)
exp = rel.run(q, qh.copy_table(T), None)
out = stubs.StubOut()
w = rbql_csv.CSVWriter(out, False, None, '\\t', 'simple')
try:
    rbql_engine.query(TEXT, rbql_engine.TableIterator(T, H), w, [])
    got = ('ok', len(out.text().split('\\n')) - 1)
except rbql_engine.RbqlIOHandlingError as e:
    got = ('io', e.args[0])
return (got, ('ok', len(exp[1]) + (1 if exp[2] is not None else 0)))
''' % (texpr, haexpr))
    imports = 'from vf import qh\nfrom vf.refmodel import rel\nfrom vf.props import c07 as P\nQ = P.CASES[%r]\nTEXT = %r\n' % (name, rel_render(q))
    pre = [p for p in hpre if p.startswith('len(')] + pb + [p for p in hpre if not p.startswith('len(')] + po + \
          ['chr(9) not in %s and chr(10) not in %s and chr(13) not in %s' % (n, n, n) for n, _t in hp + pa]
    src = harness(imports, hp + pa, pre, body)
    return Obl(name + '#csvwriter', src, timeout=timeout, meta={'query': rel_render(q), 'bounds': 'through rbql_csv.CSVWriter (simple, TAB): header %r, shape %s' % (s['ha'], qh.shape_name(s['a']))})


# Bare identifiers that merely LOOK like column variables: directly mapped column names (normalize_column_names=False) and variables
# of the user init code.  The rule is "the identifier itself"; only a whole-identifier aN / bN names a source column.
BARE = {
    'direct[a1c]': dict(query='select a1c, kind, id, NR, a2', ha=['id', 'a1c', 'kind'], norm=False, init='', width=3,
                        hdr=['a1c', 'kind', 'id', 'NR', 'a1c'], row='[r[1], r[2], r[0], nr, r[1]]'),
    'direct[b2b,a10_]': dict(query='select b2b, a10_, a1, A1', ha=['b2b', 'a10_', 'A1'], norm=False, init='', width=3,
                             hdr=['b2b', 'a10_', 'b2b', 'A1'], row='[r[0], r[1], r[0], r[2]]'),
    'uservar[b2b_rate]': dict(query='select a1, b2b_rate, a1x, NRx, NF, a.speed, c1', ha=['vehicle', 'speed'], norm=True, init='b2b_rate = 3; a1x = "q"; NRx = 5; c1 = 0', width=2,
                              hdr=['vehicle', 'b2b_rate', 'a1x', 'NRx', 'NF', 'speed', 'c1'], row='[r[0], 3, "q", 5, 2, r[1], 0]'),
    'uservar[nohdr-alias]': dict(query='select a2b as k, a2b, a2', ha=None, norm=True, init='a2b = 7', width=2,
                                 hdr=['k', 'a2b', 'col3'], row='[7, 7, r[1]]'),
    'uservar[join]': dict(query='select a1, b2b_rate, b3, a22z join b on a1 == b1', ha=['vehicle', 'speed'], hb=['vehicle_name', 'fuel', 'color'], norm=True, init='b2b_rate = 3; a22z = 1', width=2,
                          hdr=['vehicle', 'b2b_rate', 'color', 'a22z'], row=None),
    'uservar[count]': dict(query='select distinct count b1b, a1', ha=['x', 'y'], norm=True, init='b1b = 1', width=2,
                           hdr=['col1', 'b1b', 'x'], row=None),
}


def _bare_obl(name, timeout):
    c = BARE[name]
    from vf.gen import str_params
    params, pre, rows = [], [], []
    for ri in range(2):
        cells = []
        for ci in range(c['width']):
            p, pr, e = str_params('c%d%d' % (ri, ci), 1)
            params += p
            pre += pr
            cells.append(e)
        rows.append('[' + ', '.join(cells) + ']')
    if name == 'uservar[join]':
        exp = "[[r[0], 3, 'z', 1] for r in T if r[0] == 'k']"
        call = "rbql.query_table(QUERY, [list(r) for r in T], out, warnings, [['k', 'f', 'z']], HA, HB, hdr, normalize_column_names=NORM, user_init_code=INIT)"
    elif name == 'uservar[count]':
        exp = "([[2, 1, T[0][0]]] if T[0][0] == T[1][0] else [[1, 1, T[0][0]], [1, 1, T[1][0]]])"
        call = 'rbql.query_table(QUERY, [list(r) for r in T], out, warnings, None, HA, None, hdr, normalize_column_names=NORM, user_init_code=INIT)'
    else:
        exp = '[(lambda r, nr: %s)(r, i + 1) for i, r in enumerate(T)]' % c['row']
        call = 'rbql.query_table(QUERY, [list(r) for r in T], out, warnings, None, HA, None, hdr, normalize_column_names=NORM, user_init_code=INIT)'
    body = indent('''
T = [%s]
expected = ('ok', %s, HDR)
out, warnings, hdr = [], [], []
try:
    %s
    got = ('ok', out, hdr)
except Exception as e:
    got = ('err', type(e).__name__, str(e))
return (got, expected)
''' % (', '.join(rows), exp, call))
    imports = 'QUERY = %r\nHA = %r\nHB = %r\nNORM = %r\nINIT = %r\nHDR = %r\n' % (c['query'], c['ha'], c.get('hb'), c['norm'], c['init'], c['hdr'])
    src = harness(imports, params, pre, body)
    return Obl('bare-ident:' + name, src, timeout=timeout, meta={'query': c['query'], 'bounds': '2 records x %d one-character symbolic cells; header %r, normalize_column_names=%r, user_init_code=%r' % (c['width'], c['ha'], c['norm'], c['init'])})


def rel_render(q):
    from vf.refmodel import rel
    return rel.render(q)


def obligations(tier, seed):
    obs = []
    quick = tier == 'quick'
    rot = set(qh.rotating([n for n in CASES if not SPEC[n]['quick']], seed, 6)) if quick else set()
    for name in CASES:
        s = SPEC[name]
        if quick and not s['quick'] and name not in rot:
            continue
        obs.append(qh.query_obl('C07', name, CASES[name], s['a'], s['b'], slen=1, timeout=150 if quick else 900, ha_spec=s['ha'], hb_spec=s['hb'], **s['kw']))
    for name in (['hdr[a1,a2|count]', 'hdr[a2,a1,NR,expr-as,5|]'] if quick else ['hdr[a1,a2|count]', 'hdr[a2,a1,NR,expr-as,5|]', 'hdr[star|count]', 'hdr[except a2]', 'hdr[update]', 'hdr[star,NR|]']):
        obs.append(_csv_width_obl(name, 150 if quick else 600))
    for name in BARE:
        obs.append(_bare_obl(name, 150 if quick else 600))
    return obs
