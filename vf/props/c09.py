"""C09 -- Column-name variables bind to the right column; header line is never data.

(a) binding end to end: rbql_engine.query_table(..., input_column_names=H): a.name (other names symbolic), a["name"] / a['name'] with the
    name written as a canonical Python string literal (hostile concrete names: quotes, backslash, brackets, tab / newline, non-ASCII,
    keyword-like; names are embedded in generated code so they are concrete), direct mode (bare name) -- the result must be the column at
    that header position, for every position, cells symbolic.
(b) lemmas with SYMBOLIC names: python_string_escape_column_name followed by an independent Python-literal unescape is the identity;
    parse_attribute_variables / map_variables_directly map name i to index i and reject unknown names.
(c) header line is never data, NR == 1 on the first data record, WITH (header) / WITH (noheader) overrides the caller's flag for the
    input and the join table: rbql_engine.query over the real CSVRecordIterator on SYMBOLIC CSV text.
"""
from vf import qh
from vf.engine import Obl
from vf.gen import harness, indent, str_params
from vf.qlib import *  # noqa

INFO = {
    'explanation': 'Binding: for EVERY table (symbolic cells) and every header position p the named reference denotes column p. Lemmas: for EVERY name (symbolic, any Unicode) the escape / index maps are correct. '
                   'Header line: for EVERY CSV text (symbolic) x caller flag {True, False} x modifier {none, header, headers, noheader, noheaders} the output equals the reference reader + "modifier wins" rule; '
                   'NR is 1 on the first data record.',
    'bounds': 'headers of 3 names; symbolic names len <= 2 (quick) / 3; hostile concrete name pool of 14 names; CSV texts of 2-3 lines x <= 2 characters; tables of 2 rows'
        '; JOIN + WITH modifier with name variables of both tables (6 flag / modifier combinations x attribute and bracket style)',
    'outside': 'names containing an a.ident / b.ident token (excluded by the property); pandas / sqlite header sources (C extensions); non-canonical string-literal spellings of a name',
    'assumptions': ['for a["name"] queries the header names are concrete (they are embedded in generated code that compile() must see)'],
    'trusted': ['crosshair-tool 0.0.110', 'z3', 'CPython 3.12.1'],
}

HOSTILE_NAMES = ['name', 'x y', 'it\'s', 'say "hi"', 'back\\slash', 'tab\tin', 'new\nline', 'cr\rx', '[br]', 'ä-ö', 'select', 'a1', 'NR', 'x"\'y', '\\n', 'a[1]']


def esc(name, quote):
    """Canonical Python string literal body for a column name (independent of /repo)."""
    out = ''
    for ch in name:
        if ch == '\\':
            out += '\\\\'
        elif ch == '\n':
            out += '\\n'
        elif ch == '\r':
            out += '\\r'
        elif ch == '\t':
            out += '\\t'
        elif ch == quote:
            out += '\\' + quote
        else:
            out += ch
    return out


CASES = {}
SPEC = {}


def _add(name, q, ha, a=None, quick=False, normalize=True, **kw):
    assert name not in CASES, name
    CASES[name] = q
    SPEC[name] = dict(ha=ha, a=a or ['sss', 'sss'], quick=quick, normalize=normalize, kw=kw)


def _build():
    # a.name with symbolic neighbours, every position
    for p in (0, 1, 2):
        ha = [None, None, None]
        ha[p] = 'name'
        _add('attr[p=%d]' % p, Q(items=[attr('name'), NR]), ha, quick=True)
        _add('attr-where[p=%d]' % p, Q(items=[fa(1), attr('name')], where=("a.name != 'x'", lambda e: e.an('name') != 'x')), ha)
        _add('attr-update[p=%d]' % p, Q(update=[('a.name', p, "'z'", lambda e: 'z')]), ha, quick=(p == 2))
    # a one-character name: the symbolic neighbours (any Unicode, len <= 2) then range over its padded / case / prefix variants (' n', 'n ', 'N', 'nn')
    for p in (0, 1, 2):
        ha = [None, None, None]
        ha[p] = 'n'
        _add('attr-short[p=%d]' % p, Q(items=[attr('n'), NR]), ha, quick=(p != 1))
    _add('attr-short-join[b]', Q(items=[attr('n', 'b'), attr('n')], join=Join('JOIN', [(0, 0)], 'a1 == b1')), ['k', 'n'], a=['ks', 'ks'], quick=True, b=['kss', 'kss'], hb=['j', None, 'n'], krange=2)
    # columns whose names collide with built-in variables: a.NR is the COLUMN named NR when the header has one
    for p in (0, 2):
        ha = [None, None, None]
        ha[p] = 'NR'
        _add('attr-NR[p=%d]' % p, Q(items=[attr('NR'), NR]), ha, quick=True)
    _add('attr-NF-join[b]', Q(items=[attr('NF', 'b'), attr('NR'), BNR], join=Join('JOIN', [(0, 0)], 'a1 == b1')), ['k', 'NR'], a=['ks', 'ks'], quick=True, b=['ks', 'ks'], hb=['j', 'NF'], krange=2)
    # a["name"] / a['name'] with hostile concrete names at every position
    n = 0
    for nm in HOSTILE_NAMES:
        for quote in ('"', "'"):
            p = n % 3
            n += 1
            others = [x for x in HOSTILE_NAMES if x != nm]
            ha = [others[(n + 1) % len(others)], others[(n + 5) % len(others)], others[(n + 9) % len(others)]]
            ha[p] = nm
            if len(set(ha)) < 3:
                continue
            lit = quote + esc(nm, quote) + quote
            it = sub(nm, quote, lit=lit)
            _add('sub[%s|%s|p=%d]' % (nm.encode('unicode_escape').decode(), 'dq' if quote == '"' else 'sq', p), Q(items=[it, NR]), ha, quick=(n % 3 == 0))
    _add('sub-update[x y]', Q(update=[('a["x y"]', 1, 'a.name', lambda e: e.an('name'))]), ['name', 'x y', 'z'], quick=True)
    _add('sub-join[b]', Q(items=[sub('k', table='b'), attr('v', 'b'), attr('name')], join=Join('JOIN', [(0, 0)], 'a.name == b["k"]')), ['name', 'q'], a=['ks', 'ks'], quick=True, b=['ks', 'ks'], hb=['k', 'v'], krange=2)
    # direct mode: a column NAMED like a positional variable denotes its header position, not that position
    _add('direct[a1-at-2]', Q(items=[Item('a1', lambda e: e.an('a1'), name=('var', 'a1')), Item('a3', lambda e: e.an('a3'), name=('var', 'a3')), Item('x', lambda e: e.an('x'), name=('var', 'x'))]), ['x', 'a1', 'a3'], quick=True, normalize=False)
    # direct mode: bare column names are variables
    for p in (0, 1, 2):
        ha = ['c%d' % i for i in range(3)]
        ha[p] = 'price'
        _add('direct[p=%d]' % p, Q(items=[Item('price', lambda e: e.an('price'), name=('var', 'price')), NR]), ha, quick=(p == 1), normalize=False)


_build()


def _binding_obl(name, timeout):
    s = SPEC[name]
    kw = dict(s['kw'])
    b = kw.pop('b', None)
    hb = kw.pop('hb', None)
    if s['normalize']:
        return qh.query_obl('C09', name, CASES[name], s['a'], b, slen=1, timeout=timeout, ha_spec=s['ha'], hb_spec=hb, **kw)
    # direct mode goes through query_table(normalize_column_names=False)
    pa, pb, po, texpr = qh.table_params('a', s['a'], 1)
    from vf.refmodel import rel
    body = indent('''
T = %s
q = qh.with_headers(Q, HA, None)
exp = rel.run(q, qh.copy_table(T), None)
got = qh.run_rbql(TEXT, T, None, HA, None, normalize=False)
g, e = qh.normalise(got, exp)
# C09 is about BINDING: rows, warnings and errors are compared; how the output header names a bare direct-mode variable is C07's business
if g[0] == 'ok' and e[0] == 'ok':
    return ((g[0], g[1], g[3]), (e[0], e[1], e[3]))
return (g, e)
''' % texpr)
    imports = 'from vf import qh\nfrom vf.refmodel import rel\nfrom vf.props import c09 as P\nQ = P.CASES[%r]\nTEXT = %r\nHA = %r\n' % (name, rel.render(CASES[name]), s['ha'])
    src = harness(imports, pa, pb + po, body)
    return Obl(name + '[direct]', src, timeout=timeout, meta={'query': rel.render(CASES[name]), 'bounds': 'header %r, direct mode, 2 rows, cells str len <= 1' % (s['ha'],)})


UNESC = '''
def unescape(body, quote):
    """Independent reader of a Python string literal body restricted to the six escapes \\\\\\\\ \\\\n \\\\r \\\\t \\\\" \\\\'."""
    out = []
    i = 0
    n = len(body)
    while i < n:
        ch = body[i]
        if ch == chr(92):
            if i + 1 >= n:
                return None
            nx = body[i + 1]
            if nx == chr(92):
                out.append(chr(92))
            elif nx == 'n':
                out.append(chr(10))
            elif nx == 'r':
                out.append(chr(13))
            elif nx == 't':
                out.append(chr(9))
            elif nx == quote:
                out.append(quote)
            else:
                return None
            i += 2
        else:
            if ch == quote or ch == chr(10) or ch == chr(13) or ch == chr(9):
                return None      # must have been escaped
            out.append(ch)
            i += 1
    return ''.join(out)
'''


def _escape_lemma_obl(quote, L, timeout):
    params, pre, nexpr = str_params('n', L)
    if not params:
        params, pre = [('dummy', 'int')], ['dummy == 0']
    body = indent('''
name = %s
e = rbql_engine.python_string_escape_column_name(name, QUOTE)
return (unescape(e, QUOTE), name)
''' % nexpr)
    src = harness('QUOTE = %r\n' % quote, params, pre, body, extra_defs=UNESC)
    return Obl('escape_roundtrip[%s,len=%d]' % ('dq' if quote == '"' else 'sq', L), src, timeout=timeout,
               meta={'function': 'rbql_engine.python_string_escape_column_name', 'bounds': 'every Unicode name of length %d' % L})


def _attr_map_obl(L, timeout):
    """parse_attribute_variables on symbolic distinct identifier-like header names: queried name -> its index; unknown -> parsing error."""
    p0, pre0, e0 = str_params('h0', L)
    p1, pre1, e1 = str_params('h1', L)
    body = indent('''
h0 = 'x' + %s
h1 = 'y' + %s
header = [h0, 'name', h1]
m = dict()
try:
    rbql_engine.parse_attribute_variables('select a.name, a.name2 where a.zz', 'a', header + ['name2', 'zz'], 'test', m)
    got = sorted([(k, v.index) for k, v in m.items()])
except rbql_engine.RbqlParsingError:
    got = 'parsing error'
m2 = dict()
try:
    rbql_engine.parse_attribute_variables('select a.name, a.missing', 'a', header, 'test', m2)
    got2 = 'accepted'
except rbql_engine.RbqlParsingError:
    got2 = 'parsing error'
return ((got, got2), ([('a.name', 1), ('a.name2', 3), ('a.zz', 4)], 'parsing error'))
''' % (e0, e1))
    src = harness('', p0 + p1, pre0 + pre1 + ['%s != %s' % (e0, e1)] if L else [], body) if L else None
    if src is None:
        return None
    return Obl('attribute_map[len=%d]' % L, src, timeout=timeout, meta={'function': 'rbql_engine.parse_attribute_variables', 'bounds': 'symbolic neighbour names x<%d chars> / y<%d chars>' % (L, L)})


def _direct_map_obl(timeout):
    body = indent('''
# the oracle is evaluated BEFORE the implementation touches `extra` (CrossHair's regex model was seen to perturb later membership tests)
LETTERS = 'abcdefghijklmnopqrstuvwxyzABCDEFGHIJKLMNOPQRSTUVWXYZ_'
ok_ident = len(extra) > 0 and extra[0] in LETTERS
for c in extra:
    if c not in LETTERS + '0123456789':
        ok_ident = False
exp = [('_c', 2), ('alpha', 0), ('b_2', 1)] if ok_ident else 'io error'
m = dict()
names = ['alpha', 'b_2', '_c']
try:
    rbql_engine.map_variables_directly('select b_2, alpha where _c', names + [extra], m)
    got = [(k, m[k].index if k in m else None) for k in ('_c', 'alpha', 'b_2')]
except rbql_engine.RbqlIOHandlingError:
    got = 'io error'
return (got, exp)
''')
    src = harness('', [('extra', 'str')], ['len(extra) <= 2', 'chr(10) not in extra', "extra != '_c'"], body)
    return Obl('direct_map[extra-name]', src, timeout=timeout, meta={'function': 'rbql_engine.map_variables_directly', 'bounds': 'fourth column name: every Unicode string of length <= 2 without LF'})


MODS = {'none': '', 'header': ' WITH (header)', 'headers': ' with (headers)', 'noheader': ' WITH (noheader)', 'noheaders': ' With (noheaders)'}


def _header_line_obl(flag, mod, lens, policy, timeout):
    params, pre, exprs = [], [], []
    for i, l in enumerate(lens):
        p_, pre_, e_ = str_params('l%d' % i, l)
        params += p_
        pre += pre_
        exprs.append(e_)
    pre += ['%s != 10 and %s != 13' % (n, n) for n, _t in params]
    body = indent('''
text = chr(10).join([%s]) + chr(10)
eff_header = FLAG
if MOD in ('header', 'headers'):
    eff_header = True
if MOD in ('noheader', 'noheaders'):
    eff_header = False
ref = csvref.expected_read(text, ',', POLICY, eff_header, None, None)
out = []
w = rbql_engine.TableWriter(out)
try:
    it = rbql_csv.CSVRecordIterator(stubs.PieceIn([text]), None, ',', POLICY, has_header=FLAG)
    rbql_engine.query(QUERY, it, w, [])
    got = ('ok', out, w.header)
except rbql_engine.RbqlIOHandlingError as e:
    got = ('io', e.args[0])
if ref[0] != 'ok':
    return (got, ref)
rows = [[i + 1, (r[0] if len(r) > 0 else None), len(r)] for i, r in enumerate(ref[1])]
hdr = None
if eff_header and ref[2] is not None:
    hdr = ['NR', ref[2][0] if len(ref[2]) > 0 else 'col2', 'NF']
return (got, ('ok', rows, hdr))
''' % ', '.join(exprs))
    q = 'select NR, a1, NF' + MODS[mod]
    imports = 'from vf import csvh\nfrom vf.refmodel import csvref\nFLAG = %r\nMOD = %r\nPOLICY = %r\nQUERY = %r\n' % (flag, mod, policy, q)
    src = harness(imports, params, pre, body)
    return Obl('header_line[flag=%d,mod=%s,%s,lines=%s]' % (flag, mod, policy, '+'.join(map(str, lens))), src, timeout=timeout,
               meta={'query': q, 'bounds': 'every CSV text with line lengths %s; caller flag %r' % (lens, flag)})


def _header_join_obl(flag, mod, timeout, named=False):
    pa, prea, ea = str_params('x', 1)
    pb, preb, eb = str_params('y', 1)
    body = indent('''
xa = %s
yb = %s if not NAMED else 'q'     # named variants: one symbolic character is enough (the binding, not the data, is the subject)
text_a = 'k,v' + chr(10) + xa + ',1' + chr(10) + 'k,2' + chr(10)
text_b = 'k,w' + chr(10) + yb + ',7' + chr(10) + 'k,8' + chr(10)
eff = FLAG
if MOD == 'header':
    eff = True
if MOD == 'noheader':
    eff = False
A = csvref.expected_read(text_a, ',', 'quoted', eff)[1]
B = csvref.expected_read(text_b, ',', 'quoted', eff)[1]
exp = [[ra[0], ra[1], rb[1]] for ra in A for rb in B if ra[0] == rb[0]]

class Reg(rbql_engine.RBQLTableRegistry):
    def get_iterator_by_table_id(self, table_id, alias):
        return rbql_csv.CSVRecordIterator(stubs.PieceIn([text_b]), None, ',', 'quoted', has_header=FLAG, table_name=table_id, variable_prefix=alias)

out = []
it = rbql_csv.CSVRecordIterator(stubs.PieceIn([text_a]), None, ',', 'quoted', has_header=FLAG)
if not NAMED:
    rbql_engine.query(QUERY, it, rbql_engine.TableWriter(out), [], Reg())
    return (out, exp)
# column-NAME variables of both tables: available exactly when the effective mode (modifier wins) has a header line
try:
    rbql_engine.query(QUERY, it, rbql_engine.TableWriter(out), [], Reg())
    got = ('ok', out)
except (rbql_engine.RbqlParsingError, rbql_engine.RbqlRuntimeError) as e:
    got = ('err', [])
return (got, ('ok', exp) if eff else ('err', []))
''' % (ea, eb))
    q = ('select a.k, a["v"], b.w join B on a.k == b.k' if named == 1 else "select a1, a2, b['w'] join B on a1 == b1" if named == 2 else 'select a1, a2, b2 join B on a1 == b1') + MODS[mod]
    pre = prea + preb + ['%s not in (10, 13, 34, 44)' % n for n, _t in pa + pb]
    src = harness('from vf import csvh\nfrom vf.refmodel import csvref\nFLAG = %r\nMOD = %r\nQUERY = %r\nNAMED = %r\n' % (flag, mod, q, named), pa + pb, pre, body)
    return Obl('header_line_join[flag=%d,mod=%s%s]' % (flag, mod, ',named=%d' % named if named else ''), src, timeout=timeout, meta={'query': q, 'bounds': 'input and join CSV files of 3 lines with one symbolic key character each'})


def selfcheck():
    from vf.refmodel import relcheck
    return relcheck.check()


def obligations(tier, seed):
    obs = []
    quick = tier == 'quick'
    t = 150 if quick else 900
    rot = set(qh.rotating([n for n in CASES if not SPEC[n]['quick']], seed, 6)) if quick else set()
    for name in CASES:
        if quick and not SPEC[name]['quick'] and name not in rot:
            continue
        obs.append(_binding_obl(name, t))
    for quote in ('"', "'"):
        for L in ((0, 1, 2) if quick else (0, 1, 2, 3, 4)):
            obs.append(_escape_lemma_obl(quote, L, t))
    for L in ((1,) if quick else (1, 2)):
        o = _attr_map_obl(L, t)
        if o is not None:
            obs.append(o)
    obs.append(_direct_map_obl(t))
    shapes = [(1, 1), (2, 1), (0, 2), (1, 0, 1)] if quick else [(1, 1), (2, 1), (1, 2), (0, 2), (2, 2), (1, 0, 1), (1, 1, 1), (2,), (0,)]
    n = seed
    for flag in (True, False):
        for mod in MODS:
            for si, lens in enumerate(shapes):
                if quick and (si + n) % 2 and mod not in ('header', 'noheader'):
                    continue
                n += 1
                obs.append(_header_line_obl(flag, mod, lens, 'quoted' if (si + n) % 3 else 'simple', t))
    for flag in (True, False):
        for mod in ('none', 'header', 'noheader'):
            obs.append(_header_join_obl(flag, mod, t))
            obs.append(_header_join_obl(flag, mod, t, named=1))
            obs.append(_header_join_obl(flag, mod, t, named=2))
    return obs
