"""C10 -- CSV written by RBQL reads back as the identical table, in every dialect; lossy output is never silent.

Decided by CrossHair over (1) the quoting / splitting kernels of csv_utils (lemma, larger bounds) and (2) the real rbql_csv.CSVWriter
-> text -> real rbql_csv.CSVRecordIterator pipeline on stub streams: field contents symbolic (lengths fixed per shard), policy /
delimiter / line separator concrete per shard.  Text level only: io.TextIOWrapper (utf-8 / latin-1 layers) is C and trusted.
"""
import itertools

from vf.engine import Obl
from vf.gen import harness, indent, str_params

INFO = {
    'explanation': 'Kernel lemma: for EVERY list of fields (lengths per shard) smart_split(join(quote(f))) returns the fields and no warning. Pipeline: for EVERY representable '
                   'table (explicit predicate per policy, validated against the reference writer/reader pair) CSVWriter output read by CSVRecordIterator is the identical table '
                   '(quoted_rfc: CR / CRLF inside fields normalised to LF) with no warnings except the documented field-count warning of ragged tables, for line separators LF, CRLF, CR. '
                   'Lossy output: with simple / whitespace output the separator warning is raised iff some field contains the delimiter, the None warning iff a None was written.',
    'bounds': 'kernel: 1-3 fields, <= 5 characters in total; pipeline: tables <= 2x2 with <= 3 (quick) / 4 (thorough) characters in total; delimiters , ; TAB | SPACE, "::" and the non-ASCII "§"; '
              'policies quoted, quoted_rfc, simple, whitespace, monocolumn',
    'outside': 'byte level (utf-8 / latin-1 codecs: "all 256 latin-1 code points" is a property of the codec); larger tables; JS writer/reader (see C18)',
    'assumptions': ['encode_*_stream replaced by identity (text-level model)', 'explicit representability predicate == reference round-trip predicate (selfcheck at every run, exhaustive on a small alphabet)'],
    'trusted': ['crosshair-tool 0.0.110', 'z3', 'CPython 3.12.1 re'],
}

DN = {':=)': 'smiley', '': 'none', ',': 'comma', ';': 'semi', '\t': 'tab', '|': 'pipe', ' ': 'space', '::': 'dcolon', '§': 'sect'}

PRED_SRC = '''
def representable(T, dlm, policy):
    """Explicit form of "the reference writer/reader pair round-trips T" (checked against the reference in selfcheck)."""
    if len(T) == 0:
        return True
    for r in T:
        if len(r) == 0:
            return False
        for f in r:
            if policy != 'quoted_rfc' and (chr(10) in f or chr(13) in f):
                return False
            if policy == 'simple' and not no_overlap(f, dlm):
                return False
            if policy in ('quoted', 'quoted_rfc') and len(dlm) > 1 and chr(34) not in f and dlm not in f and not no_overlap(f, dlm):
                return False      # an unquoted field may not end / start with a proper prefix / suffix of a multi-character delimiter
            if policy == 'whitespace' and (f == '' or ' ' in f):
                return False
        if policy == 'monocolumn' and len(r) != 1:
            return False
    return True


def no_overlap(f, dlm):
    """An unquoted field is safe iff the delimiter cannot appear in the joined line other than between fields."""
    if dlm in f:
        return False
    if len(dlm) > 1:
        # partial overlap with a multi-character delimiter (field ending / starting with a proper prefix / suffix of it)
        for k in range(1, len(dlm)):
            if f.endswith(dlm[:k]) or f.startswith(dlm[k:]):
                return False
    return True


def norm_rfc(T):
    return [[f.replace(chr(13) + chr(10), chr(10)).replace(chr(13), chr(10)) for f in r] for r in T]
'''

exec(PRED_SRC)


def selfcheck():
    """The explicit predicate agrees with the property's definition (reference pair round-trips) on a small alphabet, exhaustively."""
    from vf.refmodel import csvref
    for dlm, policy in ((',', 'quoted'), (',', 'quoted_rfc'), (',', 'simple'), ('::', 'simple'), ('::', 'quoted'), (' ', 'whitespace'), ('', 'monocolumn')):
        alpha = ['a', '"', ' ', '\n', '\r'] + ([dlm[0]] if dlm else [','])
        fields = [''.join(t) for L in range(0, 3) for t in itertools.product(alpha, repeat=L)]
        tables = [[[f]] for f in fields] + [[[f, g]] for f in fields[:16] for g in fields[:16]] + [[[f], [g]] for f in fields[:12] for g in fields[:12]]
        for T in tables:
            if policy == 'monocolumn' and any(len(r) != 1 for r in T):
                continue
            text = csvref.write_table(T, dlm, policy)
            back = csvref.expected_read(text, dlm, policy)
            want = norm_rfc(T) if policy == 'quoted_rfc' else T  # noqa
            rt = back[0] == 'ok' and back[1] == want and back[3] == []
            if representable(T, dlm, policy) and not rt:  # noqa  (the predicate may be conservative, never wider than the property's definition)
                return 'representability predicate admits %r (%r, %r) which the reference pair does not round-trip' % (T, dlm, policy)
            if rt and not representable(T, dlm, policy) and len(dlm) == 1:  # noqa  (exact for single-character delimiters)
                return 'representability predicate rejects %r (%r, %r) which the reference pair round-trips' % (T, dlm, policy)
    from vf.refmodel import vectors
    return vectors.check_split_reference()


def _kernel_obl(dlm, policy, lens, timeout):
    params, pre, exprs = [], [], []
    for i, l in enumerate(lens):
        p_, pre_, e_ = str_params('f%d' % i, l)
        params += p_
        pre += pre_
        exprs.append(e_)
    if policy == 'quoted':
        pre += ['%s != 10 and %s != 13' % (n, n) for n, _t in params]
    if not params:
        params, pre = [('dummy', 'int')], ['dummy == 0']
    if len(dlm) > 1:
        pre.append('representable([[%s]], DLM, POLICY)' % ', '.join(exprs))   # no partial overlap of an unquoted field with the delimiter
    q = 'rfc_quote_field' if policy == 'quoted_rfc' else 'quote_field'
    body = indent('''
fields = [%s]
line = DLM.join([csv_utils.%s(f, DLM) for f in fields])
got = csv_utils.smart_split(line, DLM, POLICY, False)
return (got, (fields, False))
''' % (', '.join(exprs), q))
    src = harness('DLM = %r\nPOLICY = %r\n' % (dlm, policy), params, pre, body, extra_defs=PRED_SRC)
    return Obl('kernel[%s,%s,lens=%s]' % (policy, DN[dlm], '+'.join(map(str, lens))), src, timeout=timeout,
               meta={'function': 'csv_utils.%s -> smart_split' % q, 'bounds': 'every field list with lengths %s%s' % (lens, ' (no CR/LF)' if policy == 'quoted' else '')})


def _pipe_obl(dlm, policy, shape, linesep, timeout, expect='hold', finding=None, extra_pre=None, tag='', enc=None):
    """shape: list of rows, each a tuple of field lengths."""
    params = []
    pre = []
    rows = []
    for ri, row in enumerate(shape):
        cells = []
        for ci, L in enumerate(row):
            p_, pre_, e_ = str_params('f%d%d' % (ri, ci), L)
            params += p_
            pre += pre_
            cells.append(e_)
        rows.append('[' + ', '.join(cells) + ']')
    if not params:
        params = [('dummy', 'int')]
        pre = ['dummy == 0']
    texpr = '[' + ', '.join(rows) + ']'
    pre.append('representable(%s, DLM, POLICY)' % texpr)
    if enc == 'utf-8' and shape and shape[0] and shape[0][0] > 0:
        pre.append('f00_0 != 0xFEFF')       # a table whose very first character is a BOM is not representable (the property says so)
    pre += (extra_pre or [])
    body = indent('''
T = %s
w = csvh.write_all(T, DLM, POLICY, LINESEP)
if w[0] != 'ok':
    return (w, 'writer must accept a representable table')
r = csvh.read_all([w[1]], ENC, DLM, POLICY)
want = norm_rfc(T) if POLICY == 'quoted_rfc' else T
fi = csvref.fields_info_warning(T)
ew = [] if fi is None else ['Number of fields in "input" table is not consistent: e.g. record %%d -> %%d fields, record %%d -> %%d fields' %% (fi[1], fi[0], fi[3], fi[2])]
return ((w[2], r), ([], ('ok', want, None, ew)))
''' % texpr)
    imports = 'from vf import csvh\nfrom vf.refmodel import csvref\nDLM = %r\nPOLICY = %r\nLINESEP = %r\nENC = %r\n' % (dlm, policy, linesep, enc)
    src = harness(imports, params, pre, body, extra_defs=PRED_SRC)
    tag = tag + (',enc=' + enc if enc else '')
    name = 'pipe[%s,%s,%s,shape=%s]%s' % (policy, DN[dlm], {'\n': 'LF', '\r\n': 'CRLF', '\r': 'CR'}[linesep], '/'.join('+'.join(map(str, r)) for r in shape) or 'empty', tag)
    return Obl(name, src, timeout=timeout, expect=expect, finding=finding,
               meta={'function': 'rbql_csv.CSVWriter -> rbql_csv.CSVRecordIterator', 'bounds': 'every representable table with field lengths %s' % (shape,)})


def _lossy_obl(dlm, policy, shape, timeout, header_lens=None):
    params = []
    pre = []
    rows = []
    hexpr = 'None'
    if header_lens is not None:
        hs = []
        for i, L in enumerate(header_lens):
            p_, pre_, e_ = str_params('h%d' % i, L)
            params += p_
            pre += pre_
            hs.append(e_)
        hexpr = '[' + ', '.join(hs) + ']'
    for ri, row in enumerate(shape):
        cells = []
        for ci, L in enumerate(row):
            n = 'f%d%d' % (ri, ci)
            params.append((n, 'Optional[str]'))
            pre.append('%s is None or len(%s) == %d' % (n, n, L))
            cells.append(n)
        rows.append('[' + ', '.join(cells) + ']')
    texpr = '[' + ', '.join(rows) + ']'
    body = indent('''
T = %s
H = %s
has_none = any(f is None for r in T for f in r)
has_dlm = any((f is not None and DLM in f) for r in T for f in r) or (H is not None and any(DLM in h for h in H))
w = csvh.write_all(T, DLM, POLICY, header=H)
ew = []
if has_none:
    ew.append('None values in output were replaced by empty strings')
if has_dlm:
    ew.append('Some output fields contain separator')
return ((w[0], w[2] if w[0] == 'ok' else None), ('ok', ew))
''' % (texpr, hexpr))
    src = harness('from vf import csvh\nDLM = %r\nPOLICY = %r\n' % (dlm, policy), params, pre, body)
    return Obl('lossy[%s,%s,shape=%s%s]' % (policy, DN[dlm], '/'.join('+'.join(map(str, r)) for r in shape), (',header=' + '+'.join(map(str, header_lens))) if header_lens is not None else ''), src, timeout=timeout,
               meta={'function': 'rbql_csv.CSVWriter.write/get_warnings', 'bounds': 'fields str of the stated lengths or None: %s' % (shape,)})


def _lossy_list_obl(dlm, policy, timeout):
    """A list-valued output field (e.g. ARRAY_AGG) is joined with the sub-array delimiter; a None INSIDE it is a None written to CSV."""
    body = indent('''
inner = [x0, x1]
T = [[inner, y]]
has_none = x0 is None or x1 is None or y is None
has_dlm = any((v is not None and DLM in v) for v in (x0, x1, y))
w = csvh.write_all(T, DLM, POLICY)
ew = []
if has_none:
    ew.append('None values in output were replaced by empty strings')
if has_dlm and POLICY in ('simple', 'whitespace'):
    ew.append('Some output fields contain separator')
return ((w[0], w[2] if w[0] == 'ok' else None), ('ok', ew))
''')
    params = [('x0', 'Optional[str]'), ('x1', 'Optional[str]'), ('y', 'Optional[str]')]
    pre = ['%s is None or len(%s) <= 1' % (n, n) for n, _t in params]
    src = harness('from vf import csvh\nDLM = %r\nPOLICY = %r\n' % (dlm, policy), params, pre, body)
    return Obl('lossy_list_field[%s,%s]' % (policy, DN[dlm]), src, timeout=timeout, meta={'function': 'rbql_csv.CSVWriter.normalize_fields', 'bounds': 'record [[x0, x1], y], each str of length <= 1 or None'})


def _shapes(total, maxrows=2, maxcols=2):
    res = []
    for nrows in range(1, maxrows + 1):
        for widths in itertools.product(range(1, maxcols + 1), repeat=nrows):
            ncell = sum(widths)
            for lens in itertools.product(range(0, total + 1), repeat=ncell):
                if sum(lens) != total:
                    continue
                it = iter(lens)
                res.append([tuple(next(it) for _ in range(w)) for w in widths])
    return res


def obligations(tier, seed):
    obs = []
    quick = tier == 'quick'
    # A. kernel lemma
    klens = [(0,), (2,), (4,), (1, 1), (2, 1), (0, 2), (1, 1, 1), (2, 2)] if quick else \
            [(0,), (1,), (2,), (3,), (4,), (5,), (0, 0), (1, 1), (2, 1), (1, 2), (0, 3), (2, 2), (3, 1), (1, 3), (2, 3), (3, 2), (1, 1, 1), (2, 1, 1), (1, 2, 1), (0, 2, 2), (2, 2, 1)]
    for pi, (dlm, policy) in enumerate(((',', 'quoted'), (',', 'quoted_rfc'), (' ', 'quoted'), ('\t', 'quoted_rfc'), (';', 'quoted'), ('|', 'quoted'), ('§', 'quoted'))):
        for li, lens in enumerate(klens):
            if quick and pi >= 2 and (li + pi + seed) % 3 != 0:
                continue
            obs.append(_kernel_obl(dlm, policy, lens, 200 if quick else 1200))
    # B. real writer -> real reader
    cfgs = [(',', 'quoted'), (',', 'quoted_rfc'), ('\t', 'simple'), (' ', 'whitespace'), ('', 'monocolumn'), (';', 'quoted_rfc'), (' ', 'quoted'), ('|', 'simple'), ('::', 'simple'), ('§', 'quoted')]
    seps = ['\n', '\r\n', '\r']
    if quick:
        shp = [[(2,)], [(1, 1)], [(0, 2)], [(1,), (1,)], [(1, 0), (1,)], [(3,)], [(1, 2)], [(1,), (0, 1)], [(1, 1), (1, 0)], [(1,), (0,)], [(0,)], [(0,), (0,)]]   # incl. one-column tables ending in an empty cell
        n = seed
        for ci, (dlm, policy) in enumerate(cfgs):
            for si, shape in enumerate(shp):
                if policy == 'monocolumn' and any(len(r) != 1 for r in shape):
                    continue
                if policy == 'whitespace' and any(L == 0 for r in shape for L in r):
                    continue
                if sum(sum(r) for r in shape) >= 3 and policy in ('quoted', 'quoted_rfc') and (ci + si + n) % 2:
                    continue
                obs.append(_pipe_obl(dlm, policy, shape, seps[(ci + si + n) % 3], 200))
        obs.append(_pipe_obl(',', 'quoted', [], '\n', 60))
    else:
        for ci, (dlm, policy) in enumerate(cfgs):
            for total in range(0, 5):
                for si, shape in enumerate(_shapes(total)):
                    if policy == 'monocolumn' and any(len(r) != 1 for r in shape):
                        continue
                    if policy == 'whitespace' and any(L == 0 for r in shape for L in r):
                        continue
                    if total == 4 and (si + ci + seed) % 3 != 0:
                        continue
                    obs.append(_pipe_obl(dlm, policy, shape, seps[(ci + si + seed) % 3], 1500))
    # B2. the reader's BOM handling is active (utf-8): only a BOM at the very start of the text is special
    for dlm, policy, shape in ((',', 'quoted', [(1,), (1,)]), (',', 'quoted', [(1, 1), (1, 0)]), (';', 'quoted_rfc', [(3,)]), ('\t', 'simple', [(1,), (2,)]), (',', 'quoted_rfc', [(1,), (2,)])):
        obs.append(_pipe_obl(dlm, policy, shape, '\n', 300 if quick else 1200, enc='utf-8'))
    # C. lossy output is never silent
    lsh = [[(1, 1)], [(2,), (0, 1)]] if quick else [[(1, 1)], [(2,), (0, 1)], [(2, 2)], [(1, 1), (1, 1)], [(3,)]]
    for dlm, policy in ((',', 'simple'), (' ', 'whitespace'), ('\t', 'simple')):
        for shape in lsh:
            obs.append(_lossy_obl(dlm, policy, shape, 200 if quick else 900))
        obs.append(_lossy_obl(dlm, policy, [(1, 1)], 200 if quick else 900, header_lens=(2, 1)))   # the header line is output too
    for dlm, policy in ((',', 'simple'), (',', 'quoted'), (' ', 'whitespace')):
        obs.append(_lossy_list_obl(dlm, policy, 200 if quick else 900))
    # D. multi-character delimiter under the quoted policies (broken before the fix recorded in known_findings.json: "fixed: property=C10 ...")
    for shape in ([[(1, 1)], [(2,)], [(1, 0), (1,)]] if quick else [[(1, 1)], [(2,)], [(1, 0), (1,)], [(2, 1)], [(1, 2)], [(1, 1, 1)], [(3,)], [(2, 2)]]):
        for pol in ('quoted', 'quoted_rfc'):
            obs.append(_pipe_obl('::', pol, shape, '\n', 300 if quick else 1200, tag='#multichar'))
    for lens in ([(1, 1), (2, 1), (3,)] if quick else [(1, 1), (2, 1), (1, 2), (3,), (2, 2), (1, 1, 1), (4,)]):
        obs.append(_kernel_obl('::', 'quoted', lens, 300 if quick else 1200))
        obs.append(_kernel_obl(':=)', 'quoted_rfc', lens, 300 if quick else 1200))
    return obs
